# Per-property budgets and build settings for ./check
def eng(quick, thorough, **kw):
    d = {"quick": quick, "thorough": thorough}
    d.update(kw)
    return d

Q = lambda shards, checks, **kw: dict(shards=shards, checks=checks, timeout=kw.pop("timeout", 900), **kw)

CHECKS = {
    "C01": eng(Q(4, 1500), Q(16, 40000, timeout=3000)),
}
