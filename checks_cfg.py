# Per-property budgets and build settings for ./check
def eng(quick, thorough, **kw):
    d = {"quick": quick, "thorough": thorough}
    d.update(kw)
    return d

Q = lambda shards, checks, **kw: dict(shards=shards, checks=checks, timeout=kw.pop("timeout", 900), **kw)

CHECKS = {
    "C01": eng(Q(8, 3000), Q(16, 40000, timeout=3000)),
    "C02": eng(Q(8, 3000), Q(16, 40000, timeout=3000)),
    "C03": eng(Q(8, 3000), Q(16, 40000, timeout=3000)),
    "C04": eng(Q(8, 3000), Q(16, 40000, timeout=3000)),
    "C05": eng(Q(8, 3000), Q(16, 40000, timeout=3000)),
    "C06": eng(Q(8, 2400), Q(16, 30000, timeout=3000)),
    "C07": eng(Q(8, 2400), Q(16, 30000, timeout=3000)),
    "C08": eng(Q(8, 3000), Q(16, 40000, timeout=3000)),
    "C09": eng(Q(8, 2400), Q(16, 30000, timeout=3000)),
    "C10": eng(Q(8, 3000), Q(16, 40000, timeout=3000)),
    "C11": eng(Q(8, 500), Q(16, 8000, timeout=3000), gogc=1,
               assumptions=["the runtime type descriptor field PtrBytes is the oracle for pointer-freeness", "collectability is judged by finalizers within 12 GC cycles; a shortfall counts only if it reproduces three times in a row"]),
    "C12": eng(Q(4, 400), Q(16, 10000, timeout=3000), inproc=[1, 2],
               assumptions=["Go randomises map iteration per range statement and per process; non-determinism that needs a particular hash seed is found only with luck"],
               arkrun=[("proc1", ["verif"]), ("proc2", ["verif"]), ("proc3", ["verif"])]),
    "C13": eng(Q(8, 600), Q(16, 6000, timeout=3000), race=True, variants=[{"tags": ["verif"]}, {"tags": ["verif", "ark_debug"]}],
               assumptions=["the Go race detector (happens-before based) is the sensor for data races: a racy pair is reported when both accesses execute in one run; interleavings that never occurred are not explored"]),
    "C14": eng(Q(8, 2400), Q(16, 25000, timeout=3000), api_calls=True, api_exempt=["Query0.GetRelation"]),
    "C15": eng(Q(8, 3000), Q(16, 40000, timeout=3000)),
    "C16": eng(Q(8, 2400), Q(16, 30000, timeout=3000)),
    "C17": eng(Q(8, 3000), Q(16, 30000, timeout=3000), fuzz=[("FuzzEntityBinary", 40), ("FuzzEntityJSON", 40)]),
    "C18": eng(Q(8, 2000), Q(16, 20000, timeout=3000), variants=[{"tags": ["verif"]}, {"tags": ["verif", "ark_tiny"]}]),
    "C19": eng(Q(8, 3000), Q(16, 30000, timeout=3000)),
    "C20": eng(Q(8, 300), Q(16, 8000, timeout=3000),
               arkrun=[("default", ["verif"]), ("tiny", ["verif", "ark_tiny"]), ("debug", ["verif", "ark_debug"]), ("tiny_debug", ["verif", "ark_tiny", "ark_debug"])]),
}
