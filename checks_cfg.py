# Per-property budgets and build settings for ./check
def eng(quick, thorough, **kw):
    d = {"quick": quick, "thorough": thorough}
    d.update(kw)
    return d

Q = lambda shards, checks, **kw: dict(shards=shards, checks=checks, timeout=kw.pop("timeout", 900), **kw)

CHECKS = {
    "C01": eng(Q(4, 1500), Q(16, 40000, timeout=3000)),
    "C02": eng(Q(4, 1500), Q(16, 40000, timeout=3000)),
    "C03": eng(Q(4, 1500), Q(16, 40000, timeout=3000)),
    "C04": eng(Q(4, 1500), Q(16, 40000, timeout=3000)),
    "C05": eng(Q(4, 1500), Q(16, 40000, timeout=3000)),
    "C06": eng(Q(4, 1200), Q(16, 30000, timeout=3000)),
    "C07": eng(Q(4, 1200), Q(16, 30000, timeout=3000)),
    "C08": eng(Q(4, 1500), Q(16, 40000, timeout=3000)),
    "C09": eng(Q(4, 1200), Q(16, 30000, timeout=3000)),
    "C10": eng(Q(4, 1500), Q(16, 40000, timeout=3000)),
    "C14": eng(Q(4, 1200), Q(16, 25000, timeout=3000)),
    "C15": eng(Q(4, 1500), Q(16, 40000, timeout=3000)),
    "C16": eng(Q(4, 1200), Q(16, 30000, timeout=3000)),
    "C17": eng(Q(4, 1500), Q(16, 30000, timeout=3000)),
    "C18": eng(Q(4, 600), Q(16, 8000, timeout=3000), variants=[{"tags": ["verif"]}, {"tags": ["verif", "ark_tiny"]}]),
    "C19": eng(Q(4, 1500), Q(16, 30000, timeout=3000)),
}
