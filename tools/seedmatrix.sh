#!/bin/bash
# Re-evaluates every stored seeded change against the check of its property (quick tier) and stores result.json next to it.
cd /verif
for d in seeded/*/; do
  n=$(basename $d)
  extra=""
  [ -f $d/extra_checks ] && extra=$(cat $d/extra_checks)
  tools/seedeval.py /verif/$d $n $(python3 -c "import json;print(json.load(open('$d/meta.json'))['property'])") $extra > $d/result.json 2>&1
  echo "$n $(python3 -c "
import json
try:
    r=json.load(open('$d/result.json')); print(r.get('suite_passes_with'), r.get('demo_fails_with'), {k:v['rc'] for k,v in r['checks'].items()})
except Exception as e: print('ERR',e)")"
done
