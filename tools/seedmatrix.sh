#!/bin/bash
# Re-evaluates stored seeded changes (all, or those whose directory name matches $1) against the check of their
# property (quick tier, plus the checks listed in extra_checks) and stores result.json next to them.
cd /verif
for d in seeded/*${1}*/; do
  tools/trimcache.sh
  n=$(basename $d)
  extra=""
  [ -f $d/extra_checks ] && extra=$(cat $d/extra_checks)
  tools/seedeval.py /verif/$d $n $(python3 -c "import json;print(json.load(open('$d/meta.json'))['property'])") $extra > $d/result.json 2>&1
  echo "$n $(python3 -c "
import json
try:
    r=json.load(open('$d/result.json')); print(r.get('suite_passes_with'), r.get('demo_fails_with'), {k:'%d/%d'%(v.get('caught',v['rc']),v.get('runs',1)) for k,v in r['checks'].items()})
except Exception as e: print('ERR',e)")"
done
