#!/usr/bin/env python3
"""Prints the markdown table of seeded changes (seeded/*/meta.json + result.json) for DESIGN.md section 13."""
import json, glob, os
rows = []
for d in sorted(glob.glob("/verif/seeded/S*")):
    m = json.load(open(d + "/meta.json"))
    try:
        r = json.load(open(d + "/result.json"))
    except Exception:
        r = {}
    checks = r.get("checks", {})
    caught = ", ".join("%s %d/%d" % (c, v.get("caught", 1 if v["rc"] == 1 else 0), v.get("runs", 1)) for c, v in checks.items())
    conf = "yes" if r.get("suite_passes_with") and r.get("demo_fails_with") and r.get("demo_passes_without") else "?"
    summ = (m.get("summary") or "").replace("|", "/").replace("\n", " ")
    if len(summ) > 230:
        summ = summ[:227] + "..."
    rows.append("| %s | %s | %s | %s | %s |" % (os.path.basename(d), m.get("property"), summ, conf, caught))
print("| seed | property | change (from the sub-agent's meta.json) | confirmed | caught by (quick tier, runs that reported a violation / runs) |")
print("|---|---|---|---|---|")
print("\n".join(rows))
