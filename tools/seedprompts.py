#!/usr/bin/env python3
"""seedprompts.py <wave>  -- development aid: (re)creates one scratch worktree of /repo per property under /tmp/seedwt/<id>
and writes the prompt for the sub-agent that is to produce a seeded change to /tmp/seedout<wave>/<id>/prompt.txt.
The prompt contains only the text of the property, the rules, and one-line summaries of earlier changes (so that a new one
is chosen); nothing from /verif."""
import json, os, subprocess, sys, glob
wave = sys.argv[1]
GO = "/root/go/pkg/mod/golang.org/toolchain@v0.0.1-go1.24.0.linux-amd64/bin/go"
FOCUS = {
 "C01": "exchange_gen.go (one arity), column.go (Set/CopyToEnd/Reset), table.go (Alloc/Extend/AddAll/Set), world_internal.go newEntities / exchangeTable",
 "C02": "pool.go (entityPool: Get/getNew/Recycle/Alloc, intPool/bitPool), world.go NewEntities paths, storage.createEntities / entity index growth",
 "C03": "query_count.go (Count/EntityAt), filter.go (matching logic), mask64.go / mask256.go set operations (Contains, ContainsAny, And, Or, Equals), table.Matches",
 "C04": "world_internal.go (newEntity/newEntities with relation targets, exchange with relations), relation.go, storage.getExchangeTargets / findOrCreateTable",
 "C05": "cache.go (register/unregister/addTable/removeTable/Reset, entry indices), filter.go Register/Unregister, storage hooks that notify the cache",
 "C06": "batch.go, world_internal.go batch functions (removeEntities, exchangeBatch, newEntities, setRelationsBatch), exchange_gen.go batch variants of ONE arity",
 "C07": "lock.go, the places where World locks/unlocks around callbacks (world_internal.go, batch functions, emit), Query Close/Next end-of-iteration unlock in query.go",
 "C08": "events.go (observerManager masks, hasObservers flags, AddObserver), observer.go, observers_gen.go (ONE arity), custom events (event.go / Emit)",
 "C09": "world_internal.go: where and when events are fired relative to the change (newEntity, exchange, removeEntity, setRelations, batches), observers_gen.go callback pointer fetch of ONE arity",
 "C10": "checks.go / checks_*.go, world.go and unsafe.go alive/lock/argument checks, map.go / maps_gen.go checks of ONE arity, exchange_gen.go checks",
 "C11": "util.go (copy helpers, isTrivial / type classification), column.go (Zero/Reset/CopyToEnd), table.go Reset / move paths, adjustCapacity",
 "C12": "any place where iteration order could depend on map order, pointer values, time or goroutines: id_map.go, graph.go, cache.go, stats, storage free lists",
 "C13": "filter.go / filter_gen.go of ONE arity (shared mutable state of a filter used by Query()), cache.go reads, lock.go (LockSafe/UnlockSafe), storage slices pools used by queries",
 "C14": "ONE particular arity in maps_gen.go, exchange_gen.go, filter_gen.go, query_gen.go or observers_gen.go (wrong type parameter / storage index / relation index in one method)",
 "C15": "storage.Shrink, table.CanShrink/Shrink/adjustCapacity, archetype table lists, entity pool/index shrinking, column re-allocation",
 "C16": "the Reset methods of everything: pool.go Reset, resources Reset, storage.Reset, cache.Reset, lock Reset, graph/archetype Reset, observer manager, registry",
 "C17": "unsafe.go DumpEntities/LoadEntities, entity.go codecs (JSON/binary), pool.go fields used by dump/load",
 "C18": "registry.go (component and resource registries), resources.go, id_map.go, mask64.go (tiny build), world.go ComponentID/ResourceID helpers",
 "C19": "stats collection: world stats functions, archetype.UpdateStats / table stats, ecs/stats package, cache/observer/lock counters, memory computations",
 "C20": "*_debug.go vs *_nodebug.go files, mask64.go vs mask256.go (ark_tiny), checks that exist in only one build, query_debug_gen.go / query_nodebug_gen.go",
}
FORCED = {
 "C01": "ecs/exchange_gen.go (ExchangeN.Add/Remove/Exchange and their batch variants, ONE arity) or ecs/column.go",
 "C02": "ecs/pool.go (entityPool / intPool) or the entity-index handling in ecs/storage.go createEntity/createEntities",
 "C03": "ecs/mask64.go or ecs/mask256.go (set operations used for filter matching), ecs/query.go (UnsafeQuery), ecs/filter.go",
 "C04": "ecs/relation.go, ecs/archetype.go (GetTable / getTableSlowPath / AddTable / RemoveTarget), ecs/table.go relation bookkeeping",
 "C05": "ecs/cache.go, or the places in ecs/storage.go / ecs/archetype.go that call cache.addTable / cache.removeTable",
 "C06": "ecs/batch.go, ecs/exchange_gen.go batch variants of ONE arity, ecs/maps_gen.go batch variants of ONE arity",
 "C07": "ecs/lock.go, ecs/query.go (UnsafeQuery Next/Close), ecs/world.go lock()/unlock()/checkLocked callers",
 "C08": "ecs/observers_gen.go (ONE arity), ecs/observer.go, ecs/events.go (AddObserver / mask bookkeeping per event type), ecs/event.go",
 "C09": "ecs/observers_gen.go (callback wrappers of ONE arity), ecs/world_internal.go (order of events and changes)",
 "C10": "ecs/checks.go, ecs/unsafe.go, ecs/map.go, ecs/exchange_gen.go (argument / alive / relation checks of ONE arity)",
 "C11": "ecs/column.go, ecs/util.go, ecs/table.go (zeroing, copying with or without write barriers, growth)",
 "C12": "any file, but the source of nondeterminism must be new: select/goroutines, time, pointer values (unsafe.Pointer as key or in comparisons), sort.Slice instability, map iteration in a place not used before",
 "C13": "ecs/filter.go (UnsafeFilter), ecs/query.go, ecs/query_gen.go construction path, ecs/storage.go pooled slices used while creating queries",
 "C14": "ecs/exchange_gen.go, ecs/observers_gen.go, or an arity >= 9 of ecs/maps_gen.go (ONE method of ONE arity)",
 "C15": "ecs/table.go (Shrink / CanShrink / adjustCapacity), ecs/pool.go and entity index (shrinking of the entity list), ecs/column.go",
 "C16": "a Reset/reset method not used before: ecs/graph.go, ecs/archetype.go Reset, ecs/lock.go, ecs/pool.go intPool/bitPool, ecs/storage.go slices pools, registry",
 "C17": "ecs/entity.go (binary codec / AppendBinary), ecs/unsafe.go (DumpEntities / LoadEntities) with a mechanism not in the list",
 "C18": "ecs/registry.go, ecs/id_map.go, ecs/mask64.go, ecs/resources.go (Add/Remove/Get/Has), ecs/world.go generic helpers (ComponentID/ResourceID/TypeID)",
 "C19": "the stats package and every UpdateStats / stats-producing function except table.UpdateStats and the free-table loop of archetype.UpdateStats",
 "C20": "ecs/mask64.go (ark_tiny) vs ecs/mask256.go, any *_debug.go / *_nodebug.go pair except Query6.Get, checks_debug.go",
}
props = [json.loads(l) for l in open("/verif/properties.jsonl")]
def focus_text(pid):
    if int(wave) >= 9:
        return ("For this round you are free in where to put the change, but assume that the change will be hunted by a strong randomized tester that drives long random sequences of ALL public operations "
                "(all API variants and arities, small and occasionally large worlds, observers, cached filters, relations, batches, Reset, Shrink, dump/load, several build tags) and compares the world with a reference model after every step. "
                "Choose the change such a tester is LEAST likely to notice within some hundred thousand random cases: it should need a rare conjunction of conditions (three or more independent conditions at once), a rarely used public function or option, "
                "a value at the edge of a type's range, an unusual but legal order of configuration calls on a builder (filters, observers, events, exchanges), or state that survives in an object the user keeps (filter, mapper, query, batch, observer, event, resource handle). "
                "It must still be a genuine violation of the property, demonstrable through the public API. Stay away from the functions listed below where you can.")
    if int(wave) >= 8:
        return ("For this round, prefer a bug that shows only through the INTERPLAY of two or three features that are each fine on their own, or through a second-order effect on a LATER operation: "
                "observers x batch operations x relations; cached filters x Shrink x Reset x recycling of tables; entity dump/load x recycled IDs x relations; custom events x With/Without/Exclusive x relation archetypes; "
                "open queries x lock bits x callbacks; CopyEntity x relations x observers; Exchange x relation targets x observers; objects created early (mappers, filters, queries, observers, Batch values, Relation slices, EntityDump values) "
                "x later registration of component types, Reset, new tables, other worlds; statistics x freed/recycled tables; the zero entity or the wildcard slot used where an ordinary entity is expected. "
                "Stay away from the functions listed below where you can.")
    if int(wave) >= 7:
        return ("For this round, prefer a bug whose trigger is an unusual MAGNITUDE or SHAPE rather than an unusual sequence of calls: more than 64 / 128 / 256 / 1000 of something "
                "(entities in one table, tables in one relation archetype, archetypes, archetypes sharing a component, distinct relation targets, registered observers, cached filters, simultaneously open queries, resources, custom event types, registered component types), "
                "a component type of size 0, of more than 1 KB, with unusual alignment or containing pointers/maps/strings/func values, world capacity parameters of 1 or very large ones, entity IDs beyond the initial capacity, "
                "many Reset or Shrink cycles on one world, many recycling rounds of the same entity ID or table, typed API variants of high arity (9-12 type parameters). "
                "Thresholds, counters, pre-sized slices, small integer types and 'fast paths' for small sizes are good places to look. Stay away from the functions listed below where you can.")
    if int(wave) >= 6:
        return ("For this round your change MUST be located in: " + FORCED[pid] + ". Only if you have tried at least three candidate changes there and each was caught by the existing tests may you go elsewhere (say so in meta.json), and then stay away from the functions listed below.")
    return ("For this round, look first at these rarely touched places: " + FOCUS[pid] + ". (If nothing there can break the property while the existing tests still pass, look elsewhere, but stay away from the functions listed below.)")
used = []
for d in sorted(glob.glob("/verif/seeded/S*")):
    m = json.load(open(d + "/meta.json"))
    used.append(" - [%s] %s" % (m["property"], (m.get("summary") or "")[:200].replace("\n", " ")))
for p in props:
    pid = p["id"]
    wt = "/tmp/seedwt/%s" % pid
    out = "/tmp/seedout%s/%s" % (wave, pid)
    os.makedirs(out, exist_ok=True)
    subprocess.run("git -C /repo worktree remove --force %s; git -C /repo worktree add -q --detach %s HEAD" % (wt, wt), shell=True, capture_output=True)
    text = f"""You are helping to evaluate a verification tool by producing ONE realistic, subtle bug ("seeded change") in the Go library mlange-42/ark (an archetype-based Entity Component System; package `ecs`).

Your scratch copy of the library is the git worktree at: {wt}   (work ONLY there; never touch /repo or /verif, never read /verif; do not commit anything).
Write your results to: {out}/

The semantic property your change must BREAK is:

Property {pid}: {p.get('title','')}

Statement: {p.get('statement','')}

Quantifier: {p.get('quantifier', p.get('scope',''))}

Requirements for the change:
1. It must be a change to the library source under {wt}/ecs (non-test files; if you touch a *_gen.go file that is fine, keep it compiling). Keep it small (1-15 lines), the kind of slip a maintainer could really make (off-by-one, wrong variable, missing step, wrong order, stale index, condition inverted in a rare branch, two sites that each look fine alone ...).
2. The library must still compile and the EXISTING test suite must still pass with your change:
     cd {wt} && GOFLAGS=-mod=mod GOPROXY=off GOTOOLCHAIN=local {GO} test -vet=off -count=1 ./...
   (use exactly this go binary and these env vars; there is no network). All tests must pass. If they fail, choose a different change.
3. The bug must NOT show up in ordinary simple use at once. It must need something specific to manifest: a multi-step sequence of operations (e.g. 4+ particular steps), a particular interleaving or timing, an unusual input or configuration (capacity 1, component IDs >= 64, exactly N entities, recycled entity IDs, relation targets that die ...), or two cooperating code sites. Prefer bugs that corrupt or mis-report state silently over ones that crash immediately.
4. It must genuinely violate the property above as stated (observable through the public API of package ecs), not merely change performance or internals.

Deliverables (all required):
 a) {out}/patch.diff  -- output of `git -C {wt} diff` containing ONLY the library change (not the demonstration test).
 b) {out}/demo_test.go -- a Go test file (package ecs_test or package ecs; it will be placed in the ecs directory as seed_demo_test.go) with one test function whose name starts with TestSeed that FAILS with your change applied and PASSES on the unchanged library. Verify both directions yourself by reversing and re-applying your patch (`git diff > /tmp/<something>.diff; git apply -R ...; git apply ...`); do NOT use `git stash` (the stash is shared between all worktrees of this repository and other people are working in sibling worktrees). Say that you verified both directions. If the demonstration needs the race detector or build tags, say so in meta.json ("-race" in the text, or "demo_tags": "ark_debug").
 c) {out}/meta.json -- JSON: {{"property": "{pid}", "summary": "<one sentence: what the change does>", "needs": "<what specific sequence/input/interleaving is needed for it to manifest>", "files": ["ecs/..."], "verified": {{"suite_passes_with_change": true, "demo_fails_with_change": true, "demo_passes_without_change": true}}}}
When done, leave the worktree with your library change applied (uncommitted) and the demo test NOT inside the worktree (or remove it), and reply with a short summary (what you changed, why the existing tests do not notice, how it manifests).

Hints: read ecs/*.go to find the mechanism that makes the property hold. The docs are under docs/content. Do not spend time on anything else. Be efficient: aim to finish within about 30-40 minutes.

IMPORTANT: many previous attempts exist (listed below, for this and for other properties). Yours must be DIFFERENT from all of them: a different mechanism in a different function, with a different trigger. {focus_text(pid)} Prefer silent corruption that needs a rare but legal combination of conditions.

Already used (do not repeat):
""" + "\n".join(used) + "\n"
    open(out + "/prompt.txt", "w").write(text)
    print(pid, wt, out)
