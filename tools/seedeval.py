#!/usr/bin/env python3
"""seedeval.py <dir-with-patch.diff,demo_test.go,meta.json> <name> [checks...]
Confirms a seeded change (compiles, suite passes, demo fails with / passes without) in a scratch worktree,
then applies it to /repo, runs the named checks (quick tier; default: the property in meta.json), and restores /repo."""
import subprocess, sys, os, json, shutil, time
GO = "/root/go/pkg/mod/golang.org/toolchain@v0.0.1-go1.24.0.linux-amd64/bin/go"
ENV = dict(os.environ, GOFLAGS="-mod=mod", GOPROXY="off", GOTOOLCHAIN="local")

def sh(cmd, cwd=None, timeout=1800):
    return subprocess.run(cmd, shell=True, cwd=cwd, env=ENV, capture_output=True, text=True, timeout=timeout)

def main():
    src, name = sys.argv[1], sys.argv[2]
    meta = json.load(open(os.path.join(src, "meta.json")))
    checks = sys.argv[3:] or [meta["property"]]
    wt = "/tmp/evalwt-%s" % name
    sh("git -C /repo worktree remove --force %s" % wt)
    assert sh("git -C /repo worktree add -q --detach %s HEAD" % wt).returncode == 0
    res = {"name": name, "property": meta["property"]}
    try:
        demo = os.path.join(wt, "ecs", "seed_demo_test.go")
        shutil.copy(os.path.join(src, "demo_test.go"), demo)
        race = "-race " if "-race" in json.dumps(meta) else ""  # the demonstration asks for the race detector
        tags = ("-tags %s " % meta["demo_tags"]) if meta.get("demo_tags") else ""
        r = sh("%s test -vet=off -count=1 %s%s-run 'Seed|Demo' ./ecs" % (GO, race, tags), cwd=wt)
        res["demo_passes_without"] = r.returncode == 0
        a = sh("git apply %s" % os.path.join(src, "patch.diff"), cwd=wt)
        if a.returncode != 0:
            # the tree moved on (fix: commits) since the change was written: three-way apply against the recorded blobs
            a = sh("git apply -3 %s" % os.path.join(src, "patch.diff"), cwd=wt)
        if a.returncode != 0:
            res["apply"] = a.stderr[:300]; print(json.dumps(res)); return
        r = sh("%s test -vet=off -count=1 %s%s-run 'Seed|Demo' ./ecs" % (GO, race, tags), cwd=wt)
        res["demo_fails_with"] = r.returncode != 0
        os.remove(demo)
        r = sh("%s test -vet=off -count=1 ./..." % GO, cwd=wt)
        res["suite_passes_with"] = r.returncode == 0
        # run the checks against the worktree with the patch applied (VERIF_ARK_DIR), /repo stays untouched
        if not os.path.exists(os.path.join(wt, "ecs", "verif_hooks.go")):
            shutil.copy("/repo/ecs/verif_hooks.go", os.path.join(wt, "ecs", "verif_hooks.go"))
        res["checks"] = {}
        seeds = os.environ.get("SEEDS", os.environ.get("VERIF_SEED", "1")).split()
        for c in checks:
            t0 = time.time()
            rcs, line = [], ""
            for sd in seeds:
                r = sh("cd /verif && VERIF_SEED=%s VERIF_ARK_DIR=%s ./check %s %s" % (sd, wt, c, os.environ.get("TIER", "quick")))
                rcs.append(r.returncode)
                lines = r.stdout.splitlines()
                for i, l in enumerate(lines):
                    if l.startswith("VIOLATION") and not line:
                        line = (lines[i + 1].strip() if i + 1 < len(lines) else "")[:220]
                        break
            res["checks"][c] = {"rc": max(rcs) if 1 in rcs else rcs[0], "caught": rcs.count(1), "runs": len(rcs), "seeds": seeds,
                                "s": round(time.time() - t0), "first": line}
    finally:
        sh("git -C /repo worktree remove --force %s" % wt)
    print(json.dumps(res, indent=1))

main()
