#!/bin/bash
# usage: replay_at.sh <ark-dir> <witness.json>...   -- replays witnesses against another checkout of ark
set -e
DIR=$1; shift
G=/root/go/pkg/mod/golang.org/toolchain@v0.0.1-go1.24.0.linux-amd64/bin/go
export GOFLAGS=-mod=mod GOPROXY=off GOTOOLCHAIN=local
TMP=$(mktemp -d /tmp/replayat.XXXXXX)
sed "s|=> /repo|=> $DIR|" /verif/harness/go.mod > $TMP/alt.mod
cp /verif/harness/go.sum $TMP/alt.sum
(cd /verif/harness && $G test -c -vet=off -tags verif -modfile=$TMP/alt.mod -o $TMP/eng.test ./eng)
for w in "$@"; do
  if VERIF_REPLAY=$(realpath $w) $TMP/eng.test -test.run '^TestReplay$' -test.count=1 > $TMP/out.txt 2>&1; then echo "PASS $w"; else echo "FAIL $w: $(grep -m1 REPLAY-VIOLATION $TMP/out.txt || tail -3 $TMP/out.txt | tr '\n' ' ')"; fi
done
rm -rf $TMP
