#!/bin/bash
# usage: seedstore.sh <wave> <prop>...  -- copies a sub-agent's deliverables from /tmp/seedout<wave>/<prop> to seeded/S<wave>-<prop>
# and evaluates them (tools/seedmatrix.sh)
W=$1; shift
cd /verif
for p in "$@"; do
  d=seeded/S$W-$p; mkdir -p $d
  cp /tmp/seedout$W/$p/patch.diff /tmp/seedout$W/$p/demo_test.go /tmp/seedout$W/$p/meta.json $d/ || continue
  SEEDS=${SEEDS:-1} tools/seedmatrix.sh S$W-$p
done
