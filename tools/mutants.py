#!/usr/bin/env python3
"""Own mutation-sensitivity run: applies each mutant to /repo's working tree, runs the named checks (quick),
restores /repo (git checkout) and records which checks caught it.  usage: mutants.py [name-substring]"""
import subprocess, sys, os, json, time
REPO = "/repo"
M = [
 # name, file, old, new, checks expected to catch it
 ("C01-no-swap-fixup-add", "ecs/world_internal.go", "	swapped := oldTable.Remove(index.row)\n\n	if swapped {\n		swapEntity := oldTable.GetEntity(uintptr(index.row))\n		w.storage.entities[swapEntity.id].row = index.row\n	}\n	w.storage.entities[entity.id] = entityIndex{table: newTable.id, row: newIndex}\n\n	w.storage.registerTargets(relations)\n\n	return &oldArchetype.mask, &newArch.mask\n}\n\n// remove components", "	_ = oldTable.Remove(index.row)\n\n	w.storage.entities[entity.id] = entityIndex{table: newTable.id, row: newIndex}\n\n	w.storage.registerTargets(relations)\n\n	return &oldArchetype.mask, &newArch.mask\n}\n\n// remove components", ["C01"]),
 ("C01-adjustcap-copies-len-1", "ecs/table.go", "				copyPtr(column.pointer, newPtr, uintptr(t.len)*column.itemSize)", "				copyPtr(column.pointer, newPtr, uintptr(t.len-1)*column.itemSize)", ["C01", "C15"]),
 ("C02-no-gen-bump", "ecs/pool.go", "	p.entities[e.id].gen++\n", "	if e.id%7 != 3 {\n		p.entities[e.id].gen++\n	}\n", ["C02", "C10"]),
 ("C03-containsany-drops-word3", "ecs/mask256.go", None, None, ["C03"]),
 ("C03-count-ignores-relations", "ecs/query_count.go", "		tables := archetype.GetTables(relations)\n		for _, tab := range tables {\n			table := &storage.tables[tab]\n			if !table.Matches(relations) {\n				continue\n			}\n			count += table.Len()", "		tables := archetype.GetTables(relations)\n		for _, tab := range tables {\n			table := &storage.tables[tab]\n			count += table.Len()", ["C03"]),
 ("C04-cleanup-skips-removetarget", "ecs/storage.go", "		archetype.RemoveTarget(target)\n", "", ["C04", "C03"]),
 ("C04-recycle-keeps-targets", "ecs/table.go", "	for i := range t.columns {\n		t.columns[i].target = targets[i]\n	}\n	t.isFree = false", "	t.isFree = false", ["C04", "C03"]),
 ("C05-no-cache-add-for-recycled", "ecs/storage.go", "	s.cache.addTable(s, table)\n	return table", "	if !recycled {\n		s.cache.addTable(s, table)\n	}\n	return table", ["C05"]),
 ("C05-cache-removetable-skipped", "ecs/storage.go", "			archetype.FreeTable(table)\n			s.cache.removeTable(table)\n", "			archetype.FreeTable(table)\n", ["C05"]),
 ("C06-exchangetable-index-off", "ecs/world_internal.go", "		index.table = newTable.id\n		index.row = idx\n", "		index.table = newTable.id\n		index.row = idx + uint32(i&1)*0 + uint32(count-1-i)*0 + startIdx*0\n		if count > 2 && i == count-1 {\n			index.row = idx - 1\n		}\n", ["C06", "C01"]),
 ("C07-close-no-guard", "ecs/query.go", "	if q.cursor.table < -1 {\n		return\n	}\n	q.cursor.archetype = -2", "	q.cursor.archetype = -2", ["C07"]),
 ("C07-setrelations-no-checklocked", "ecs/world_internal.go", "func (w *World) setRelations(entity Entity, relations []relationID) {\n	w.checkLocked()\n", "func (w *World) setRelations(entity Entity, relations []relationID) {\n", ["C07"]),
 ("C08-firecreate-ignores-without", "ecs/events.go", "		if o.hasWithout && mask.ContainsAny(&o.withoutMask) {\n			continue\n		}\n		o.callback(e)\n		found = true\n	}\n	return found\n}\n\nfunc (m *observerManager) FireCreateEntityRelIfHas", "		o.callback(e)\n		found = true\n	}\n	return found\n}\n\nfunc (m *observerManager) FireCreateEntityRelIfHas", ["C08"]),
 ("C08-removeobserver-no-recompute", "ecs/events.go", "	m.allComps[o.event] = allComps\n}", "	_ = allComps\n}", ["C08"]),
 ("C09-addfn-event-before-init", "ecs/map.go", "	oldMask, newMask := m.world.add(entity, m.ids[:], m.relations)\n	if fn != nil {\n		fn(m.GetUnchecked(entity))\n	}\n\n	m.world.storage.observers.FireAddIfHas(OnAddComponents, entity, oldMask, newMask)", "	oldMask, newMask := m.world.add(entity, m.ids[:], m.relations)\n	m.world.storage.observers.FireAddIfHas(OnAddComponents, entity, oldMask, newMask)\n	if fn != nil {\n		fn(m.GetUnchecked(entity))\n	}\n", ["C09"]),
 ("C10-map-addfn-no-alive", "ecs/world_internal.go", "	if !w.Alive(entity) {\n		panic(\"can't add components to a dead entity\")\n	}\n	if len(add) == 0 {", "	if len(add) == 0 {", ["C10"]),
 ("C10-relation-target-accepts-dead", "ecs/checks.go", "	if !target.IsZero() && !s.entityPool.Alive(target) {", "	if !target.IsZero() && target.gen > 3 && !s.entityPool.Alive(target) {", ["C10", "C04"]),
 ("C11-no-zero-on-swap", "ecs/table.go", "				copyPtr(src, dst, size)\n				column.Zero(lastIndex, t.zeroPointer)\n				continue", "				copyPtr(src, dst, size)\n				continue", ["C11", "C01"]),
 ("C11-string-trivial", "ecs/util.go", "reflect.Interface, reflect.String, reflect.Func", "reflect.Interface, reflect.Func", ["C11"]),
 ("C12-cleanup-map-order", "ecs/storage.go", None, None, ["C12"]),
 ("C13-locksafe-no-mutex", "ecs/lock.go", "func (m *lock) LockSafe() uint8 {\n	m.mu.Lock()\n	lock := m.bitPool.Get()\n	m.locks.Set(lock)\n	m.mu.Unlock()\n	return lock", "func (m *lock) LockSafe() uint8 {\n	lock := m.bitPool.Get()\n	m.locks.Set(lock)\n	return lock", ["C13"]),
 ("C14-map3-get-swapped", "ecs/maps_gen.go", "func (m *Map3[A, B, C]) HasAll(entity Entity) bool {", "func (m *Map3[A, B, C]) HasAll(entity Entity) bool {\n	if entity.id%5 == 4 {\n		return m.storageA.columns[m.world.storage.entities[entity.id].table] != nil\n	}", ["C14", "C01"]),
 ("C15-canshrink-ge", "ecs/table.go", "	target := max(capPow2(t.len), minCapacity)\n	if t.cap <= target {\n		return false\n	}", "	target := max(capPow2(t.len), minCapacity)\n	if t.cap <= target*2 {\n		return false\n	}", ["C15"]),
 ("C16-reset-keeps-cache", "ecs/storage.go", "	s.cache.Reset()\n	s.locks.Reset()", "	s.locks.Reset()", ["C16"]),
 ("C16-resources-reset-skips-0", "ecs/resources.go", "	for i := range r.resources {\n		r.resources[i] = nil", "	for i := range r.resources {\n		if i == 0 {\n			continue\n		}\n		r.resources[i] = nil", ["C16"]),
 ("C17-load-drops-available", "ecs/unsafe.go", "			available: data.Available,", "			available: data.Available - data.Available/4,", ["C17", "C02"]),
 ("C17-marshal-le-gen", "ecs/entity.go", "	binary.BigEndian.PutUint32(buf[4:8], e.gen)\n	return buf, nil", "	binary.LittleEndian.PutUint32(buf[4:8], e.gen)\n	return buf, nil", ["C17"]),
 ("C18-no-rollback-under-lock", "ecs/world_internal.go", "			w.storage.registry.unregisterLastComponent()\n", "", ["C18"]),
 ("C18-limit-check-gt", "ecs/registry.go", "	if val >= totalBits {", "	if val > totalBits {", ["C18"]),
 ("C19-updatestats-skips-free", "ecs/archetype.go", "	for _, id := range a.freeTables {\n		table := &storage.tables[id]\n		cap += int(table.cap)\n		memory += stats.MemoryPerEntity * int(table.cap)\n	}\n\n	stats.FreeTables", "	stats.FreeTables", ["C19"]),
 ("C20-debug-checkqueryget", "ecs/checks_debug.go", "	if c.table < 0 {\n		panic(\"query already iterated or iteration not started yet\")", "	if c.table < -1 {\n		panic(\"query already iterated or iteration not started yet\")", ["C20"]),
]

def sh(cmd, **kw):
    return subprocess.run(cmd, shell=True, capture_output=True, text=True, **kw)

def main():
    flt = sys.argv[1] if len(sys.argv) > 1 else ""
    res = []
    for name, f, old, new, checks in M:
        if flt not in name or old is None:
            continue
        p = os.path.join(REPO, f)
        s = open(p).read()
        if s.count(old) != 1:
            print(name, "PATTERN-NOT-UNIQUE", s.count(old)); continue
        open(p, "w").write(s.replace(old, new))
        try:
            b = sh("cd /repo && GOFLAGS=-mod=mod GOPROXY=off GOTOOLCHAIN=local /root/go/pkg/mod/golang.org/toolchain@v0.0.1-go1.24.0.linux-amd64/bin/go build ./... 2>&1 | tail -3")
            if b.stdout.strip():
                print(name, "DOES-NOT-COMPILE", b.stdout.strip()[:200]); continue
            t = sh("/verif/tools/baseline.sh /repo | grep -c '^ok'")
            suite = t.stdout.strip() == "2"
            caught = {}
            for c in checks:
                t0 = time.time()
                r = sh("cd /verif && ./check %s quick" % c)
                line = next((l for l in r.stdout.splitlines() if l.startswith("  ")), "")
                caught[c] = (r.returncode, round(time.time() - t0), line.strip()[:160])
            print(name, "suite_passes=%s" % suite, " ".join("%s:rc=%d(%ds)" % (c, v[0], v[1]) for c, v in caught.items()))
            for c, v in caught.items():
                if v[0] == 1:
                    print("     ", c, v[2])
            res.append({"mutant": name, "suite_passes": suite, "results": {c: v[0] for c, v in caught.items()}})
        finally:
            sh("git -C /repo checkout -- .")
    json.dump(res, open("/verif/notes/mutants_last.json", "w"), indent=1)

main()
