#!/usr/bin/env python3
"""Systematic mutation scan of ark's hand-written sources (development aid).

For every candidate mutant (small syntactic change of one line in ecs/*.go, generated files excluded):
  1. apply it in a scratch worktree of /repo (never in /repo itself),
  2. discard it if the library no longer builds or ark's own test suite fails (those are not the changes of interest),
  3. otherwise run a smoke version of the engine-based checks (every TestCxx of the harness test binary built against the
     worktree, a few hundred cases each) and record whether any of them reports a violation.
Survivors are written to notes/mutscan_survivors.jsonl for manual triage (equivalent mutant vs. gap in a check).

usage: mutscan.py [--workers N] [--files a.go,b.go] [--limit N] [--checks 300]
"""
import argparse, json, os, re, subprocess, sys, shutil, threading, queue, time, hashlib

GO = "/root/go/pkg/mod/golang.org/toolchain@v0.0.1-go1.24.0.linux-amd64/bin/go"
ENV = dict(os.environ, GOFLAGS="-mod=mod", GOPROXY="off", GOTOOLCHAIN="local")
H = "/verif/harness"
TESTS = ["C01", "C02", "C03", "C04", "C05", "C06", "C07", "C08", "C09", "C10", "C11", "C14", "C15", "C16", "C17", "C18", "C19"]

OPS = [
    (r"<=", "<"), (r">=", ">"), (r"(?<![<>=!:])<(?![=<-])", "<="), (r"(?<![<>=!-])>(?![=>])", ">="),
    (r"==", "!="), (r"!=", "=="), (r"&&", "||"), (r"\|\|", "&&"),
    (r"\btrue\b", "false"), (r"\bfalse\b", "true"),
    (r"\+ 1\b", "+ 0"), (r"- 1\b", "- 0"), (r"\+\+", "--"), (r"\bi \+ 1\b", "i"),
    (r"\bcontinue\b", "break"), (r"\bbreak\b", "continue"),
    (r"\[0\]", "[1]"), (r"\blen\((\w+)\) - 1\b", r"len(\1)"),
]


def sh(cmd, cwd=None, timeout=600):
    try:
        return subprocess.run(cmd, shell=True, cwd=cwd, env=ENV, capture_output=True, text=True, timeout=timeout)
    except subprocess.TimeoutExpired:
        class R:  # noqa
            returncode = 124
            stdout = ""
            stderr = "timeout"
        return R()


def candidates(files):
    out = []
    for f in files:
        src = open(os.path.join("/repo", f)).read().split("\n")
        in_block_comment = False
        for ln, line in enumerate(src):
            s = line.strip()
            if not s or s.startswith("//") or s.startswith("import") or s.startswith("package") or 'panic("' in s or "panic(fmt" in s:
                continue
            code = line.split("//")[0]
            # 1. operator replacements
            for pat, rep in OPS:
                for m in re.finditer(pat, code):
                    new = code[:m.start()] + re.sub(pat, rep, code[m.start():m.end()]) + code[m.end():]
                    if new != code:
                        out.append((f, ln, line, new + line[len(code):], "op %s -> %s" % (pat, rep)))
            # 2. statement deletion (simple statements only)
            if re.match(r"^\t+[\w\.\[\]\(\)&\*, ]+(=|\+=|-=|\+\+|--|\|=)[^=]", line) and ":=" not in line and not s.endswith("{"):
                out.append((f, ln, line, re.match(r"^\t+", line).group(0) + "// deleted", "delete assignment"))
            elif re.match(r"^\t+[\w\.]+\([^{}]*\)$", line) and not s.startswith("return") and not s.startswith("func") and not s.startswith("panic"):
                out.append((f, ln, line, re.match(r"^\t+", line).group(0) + "// deleted", "delete call"))
    return out


def worker(wid, q, results, args, lock):
    wt = "/tmp/mutwt/w%d" % wid
    sh("git -C /repo worktree remove --force %s" % wt)
    assert sh("git -C /repo worktree add -q --detach %s HEAD" % wt).returncode == 0
    mod = "/tmp/mutwt/w%d.mod" % wid
    open(mod, "w").write(open(os.path.join(H, "go.mod")).read().replace("=> /repo", "=> " + wt))
    shutil.copy(os.path.join(H, "go.sum"), "/tmp/mutwt/w%d.sum" % wid)
    binp = "/tmp/mutwt/w%d.test" % wid
    while True:
        try:
            idx, (f, ln, old, new, what) = q.get_nowait()
        except queue.Empty:
            break
        path = os.path.join(wt, f)
        src = open(path).read().split("\n")
        assert src[ln] == old
        src[ln] = new
        open(path, "w").write("\n".join(src))
        rec = {"file": f, "line": ln + 1, "old": old.strip(), "new": new.strip(), "op": what, "tag": args.tag}
        try:
            b = sh("%s build ./... " % GO, cwd=wt, timeout=300)
            if b.returncode != 0:
                rec["status"] = "nobuild"
                continue
            t = sh("%s test -vet=off -count=1 -timeout 120s ./ecs/..." % GO, cwd=wt, timeout=300)
            if t.returncode != 0:
                rec["status"] = "suite-kills"
                continue
            c = sh("%s test -c -vet=off -tags verif -modfile=%s -o %s ./eng" % (GO, mod, binp), cwd=H, timeout=600)
            if c.returncode != 0:
                rec["status"] = "harness-nobuild"
                rec["err"] = c.stderr[-300:]
                continue
            procs = []
            for tname in TESTS:
                env = dict(ENV, GOGC="50")
                p = subprocess.Popen([binp, "-test.run", "^Test%s$" % tname, "-test.count=1", "-test.timeout=150s", "-rapid.checks=%d" % args.checks,
                                      "-rapid.seed=%d" % (1000 + idx % 7), "-rapid.nofailfile", "-rapid.shrinktime=1s"], cwd="/tmp/mutwt", env=env,
                                     stdout=subprocess.PIPE, stderr=subprocess.STDOUT, text=True)
                procs.append((tname, p))
            killed = []
            for tname, p in procs:
                try:
                    out, _ = p.communicate(timeout=200)
                except subprocess.TimeoutExpired:
                    p.kill()
                    out = "TIMEOUT"
                if p.returncode != 0:
                    sig = ""
                    m = re.search(r"sig=(\S+)", out)
                    if m:
                        sig = m.group(1)
                    killed.append("%s:%s" % (tname, sig or ("timeout" if out == "TIMEOUT" else "crash")))
            rec["status"] = "killed" if killed else "SURVIVED"
            rec["by"] = killed
        finally:
            sh("git -C %s checkout -- ." % wt)
            with lock:
                results.append(rec)
                n = len(results)
                if rec.get("status") in ("SURVIVED", "killed"):
                    print("[%d] %s %s:%d  %s  ->  %s   %s" % (n, rec["status"], f, ln + 1, rec["old"][:60], rec["new"][:60], " ".join(rec.get("by", []))[:100]), flush=True)
                with open("/verif/notes/mutscan_results.jsonl", "a") as fh:
                    fh.write(json.dumps(rec) + "\n")
    sh("git -C /repo worktree remove --force %s" % wt)


def main():
    ap = argparse.ArgumentParser()
    ap.add_argument("--workers", type=int, default=4)
    ap.add_argument("--files", default="")
    ap.add_argument("--limit", type=int, default=0)
    ap.add_argument("--checks", type=int, default=300)
    ap.add_argument("--skip", type=int, default=0)
    ap.add_argument("--gen", action="store_true", help="scan the generated files (*_gen.go) instead of the hand-written ones")
    ap.add_argument("--tests", default="", help="comma-separated list of harness tests (default: all engine tests)")
    ap.add_argument("--tag", default="", help="label written to the result records")
    args = ap.parse_args()
    files = args.files.split(",") if args.files else sorted(
        os.path.join("ecs", f) for f in os.listdir("/repo/ecs")
        if f.endswith(".go") and not f.endswith("_test.go") and (("_gen" in f) == args.gen) and f not in ("verif_hooks.go", "doc.go"))
    if args.tests:
        global TESTS
        TESTS = args.tests.split(",")
    cands = candidates(files)
    # deterministic shuffle so that a limited run samples all files
    cands.sort(key=lambda c: hashlib.md5(("%s:%d:%s" % (c[0], c[1], c[4])).encode()).hexdigest())
    cands = cands[args.skip:]
    if args.limit:
        cands = cands[:args.limit]
    print("%d candidate mutants in %d files" % (len(cands), len(files)), flush=True)
    os.makedirs("/tmp/mutwt", exist_ok=True)
    q = queue.Queue()
    for i, c in enumerate(cands):
        q.put((i, c))
    results, lock = [], threading.Lock()
    ths = [threading.Thread(target=worker, args=(w, q, results, args, lock)) for w in range(args.workers)]
    for t in ths:
        t.start()
    for t in ths:
        t.join()
    summary = {}
    for r in results:
        summary[r.get("status")] = summary.get(r.get("status"), 0) + 1
    print("SUMMARY", summary)
    with open("/verif/notes/mutscan_survivors.jsonl", "a") as fh:
        for r in results:
            if r.get("status") == "SURVIVED":
                fh.write(json.dumps(r) + "\n")


main()
