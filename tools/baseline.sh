#!/bin/bash
# Runs ark's own test suite (guard off) the way the baseline does; prints PASS/FAIL counts.
G=/root/go/pkg/mod/golang.org/toolchain@v0.0.1-go1.24.0.linux-amd64/bin/go
export GOFLAGS=-mod=mod GOPROXY=off GOTOOLCHAIN=local
cd ${1:-/repo} && shift
$G test -vet=off -count=1 -timeout 25m "$@" ./... 2>&1 | tail -15
