#!/usr/bin/env python3
"""replay_at.py <ark-dir> <witness.json>...  -- replays saved cases against another checkout of ark.
Prints PASS/FAIL per witness. Builds into a temp dir (removed afterwards)."""
import json, os, subprocess, sys, tempfile, shutil
sys.path.insert(0, "/verif")
from checks_cfg import CHECKS
GO = "/root/go/pkg/mod/golang.org/toolchain@v0.0.1-go1.24.0.linux-amd64/bin/go"
H = "/verif/harness"

def main():
    ark = os.path.abspath(sys.argv[1])
    tmp = tempfile.mkdtemp(prefix="replayat.")
    hook = os.path.join(ark, "ecs", "verif_hooks.go")
    if not os.path.exists(hook):
        shutil.copy("/repo/ecs/verif_hooks.go", hook)  # older checkouts lack the (add-only) hook file
    env = dict(os.environ, GOFLAGS="-mod=mod", GOPROXY="off", GOTOOLCHAIN="local")
    mod = open(os.path.join(H, "go.mod")).read().replace("=> /repo", "=> " + ark)
    open(os.path.join(tmp, "alt.mod"), "w").write(mod)
    shutil.copy(os.path.join(H, "go.sum"), os.path.join(tmp, "alt.sum"))
    built = {}
    def build(kind, tags, race=False):
        key = (kind, tuple(tags), race)
        if key in built:
            return built[key]
        out = os.path.join(tmp, "%s-%s%s" % (kind, "_".join(tags), "-race" if race else ""))
        if kind == "test":
            cmd = [GO, "test", "-c", "-vet=off", "-modfile=" + os.path.join(tmp, "alt.mod"), "-tags", ",".join(tags), "-o", out] + (["-race"] if race else []) + ["./eng"]
        else:
            cmd = [GO, "build", "-modfile=" + os.path.join(tmp, "alt.mod"), "-tags", ",".join(tags), "-o", out, "./cmd/arkrun"]
        r = subprocess.run(cmd, cwd=H, env=env, capture_output=True, text=True)
        if r.returncode != 0:
            print("BUILD FAILED", r.stderr[-2000:]); sys.exit(2)
        built[key] = out
        return out
    rc = 0
    for w in sys.argv[2:]:
        w = os.path.abspath(w)
        cs = json.load(open(w))
        prop = cs["property"]; cfg = CHECKS[prop]
        e = dict(env); e["VERIF_REPLAY"] = w
        if cs.get("kind") == "rapid-seed":
            b = build("test", cs["tags"], cfg.get("race", False))
            e.update(cs.get("env") or {})
            cmd = [b, "-test.run", "^Test%s$" % prop, "-test.count=1", "-rapid.checks=%d" % cs["checks"], "-rapid.seed=%d" % cs["seed"], "-rapid.nofailfile"]
        elif cs.get("kind") == "concurrent":
            b = build("test", ["verif"], True)
            e["GORACE"] = "halt_on_error=1"
            cmd = [b, "-test.run", "^TestReplayC13$", "-test.count=1"]
        elif "arkrun" in cfg:
            b = build("test", ["verif"])
            e["VERIF_ARKRUN"] = ",".join("%s=%s" % (n, build("arkrun", t)) for n, t in cfg["arkrun"])
            cmd = [b, "-test.run", "^TestReplayMulti$", "-test.count=1"]
        else:
            b = build("test", ["verif"])
            cmd = [b, "-test.run", "^TestReplay$", "-test.count=1"]
        r = subprocess.run(cmd, cwd=tmp, env=e, capture_output=True, text=True)
        out = r.stdout + r.stderr
        bad = "VIOLATION" in out or "DATA RACE" in out
        line = next((l.strip() for l in out.splitlines() if "VIOLATION" in l or "DATA RACE" in l), "")
        if r.returncode == 0:
            print("PASS", os.path.relpath(w, "/verif"))
        elif bad:
            print("FAIL", os.path.relpath(w, "/verif"), "::", line[:200])
        else:
            print("ERROR", os.path.relpath(w, "/verif"), out[-800:]); rc = 2
    shutil.rmtree(tmp, ignore_errors=True)
    sys.exit(rc)

main()
