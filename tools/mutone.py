#!/usr/bin/env python3
"""mutone.py <file> <line> <new line text> <check>...  -- applies one line mutant in a scratch worktree and runs the quick checks."""
import subprocess, sys, os
f, ln, new = sys.argv[1], int(sys.argv[2]), sys.argv[3]
checks = sys.argv[4:]
wt = "/tmp/mutone-%d" % os.getpid()
def sh(c): return subprocess.run(c, shell=True, capture_output=True, text=True)
sh("git -C /repo worktree add -q --detach %s HEAD" % wt)
try:
    p = os.path.join(wt, f)
    src = open(p).read().split("\n")
    print("OLD:", src[ln-1].strip()); print("NEW:", new.strip())
    indent = src[ln-1][:len(src[ln-1]) - len(src[ln-1].lstrip())]
    src[ln-1] = indent + new.strip()
    open(p, "w").write("\n".join(src))
    b = sh("cd %s && GOFLAGS=-mod=mod GOPROXY=off GOTOOLCHAIN=local /root/go/pkg/mod/golang.org/toolchain@v0.0.1-go1.24.0.linux-amd64/bin/go build ./... 2>&1 | tail -3" % wt)
    if b.stdout.strip():
        print("NOBUILD", b.stdout); sys.exit(2)
    for c in checks:
        r = sh("cd /verif && VERIF_ARK_DIR=%s ./check %s %s" % (wt, c, os.environ.get("TIER", "quick")))
        lines = [l for l in r.stdout.splitlines() if l.startswith("VIOLATION") or l.startswith("  ") or l.startswith("OK") or l.startswith("INCONCLUSIVE")]
        print(c, "rc=%d" % r.returncode, " | ".join(l.strip()[:160] for l in lines[:2]))
finally:
    sh("git -C /repo worktree remove --force %s" % wt)
