#!/usr/bin/env python3
"""mutretest.py <tag> [checks...]  -- re-tests the survivors of a mutation scan (notes/mutscan_results.jsonl, records with the given
tag) with the registered quick checks (default C14 C03 C20) against a scratch worktree, to separate gaps of the smoke run
from gaps of the checks. Writes notes/mutretest_<tag>.jsonl."""
import json, os, re, subprocess, sys, threading, queue
tag = sys.argv[1]
checks = sys.argv[2:] or ["C14", "C09", "C03", "C20"]
SKIP = [r"checkHasComponent", r"earlyOut", r"len\(rel\) >= 0", r"^break$", r"^continue$", r"_debug_gen"]
recs = [json.loads(l) for l in open("/verif/notes/mutscan_results.jsonl")]
recs = [r for r in recs if r.get("tag") == tag and r.get("status") == "SURVIVED"]
done = set()
outp = "/verif/notes/mutretest_%s.jsonl" % tag
if os.path.exists(outp):
    for l in open(outp):
        r = json.loads(l); done.add((r["file"], r["line"], r["new"]))
todo = []
for r in recs:
    if (r["file"], r["line"], r["new"]) in done:
        continue
    if any(re.search(p, r["old"]) or re.search(p, r["new"]) or re.search(p, r["file"]) for p in SKIP):
        r["retest"] = "skipped (equivalent by inspection: debug-only check, early-out flag, or empty relation list)"
        open(outp, "a").write(json.dumps(r) + "\n")
        continue
    todo.append(r)
print(len(todo), "survivors to re-test with", checks, flush=True)
q = queue.Queue()
for r in todo:
    q.put(r)
lock = threading.Lock()
def sh(c, timeout=1500):
    try:
        return subprocess.run(c, shell=True, capture_output=True, text=True, timeout=timeout)
    except subprocess.TimeoutExpired:
        class R: returncode = 124; stdout = ""; stderr = "timeout"
        return R()
def work(wid):
    wt = "/tmp/mutwt/r%d" % wid
    sh("git -C /repo worktree remove --force %s" % wt)
    sh("git -C /repo worktree add -q --detach %s HEAD" % wt)
    while True:
        try:
            r = q.get_nowait()
        except queue.Empty:
            break
        p = os.path.join(wt, r["file"])
        src = open(p).read().split("\n")
        ln = r["line"] - 1
        indent = src[ln][:len(src[ln]) - len(src[ln].lstrip())]
        if src[ln].strip() != r["old"]:
            r["retest"] = "stale"
        else:
            src[ln] = indent + r["new"]
            open(p, "w").write("\n".join(src))
            res = {}
            for c in checks:
                x = sh("cd /verif && VERIF_SEED=%d VERIF_ARK_DIR=%s ./check %s quick" % (3 + wid, wt, c))
                sig = ""
                lines = x.stdout.splitlines()
                for i, l in enumerate(lines):
                    if l.startswith("VIOLATION"):
                        sig = (lines[i + 1].strip() if i + 1 < len(lines) else "")[:160]
                        break
                res[c] = {"rc": x.returncode, "first": sig}
                if x.returncode == 1:
                    break
            r["retest"] = res
            sh("git -C %s checkout -- ." % wt)
        with lock:
            open(outp, "a").write(json.dumps(r) + "\n")
            print(r["file"], r["line"], r["old"][:50], "->", r["new"][:50], "::", json.dumps(r["retest"])[:200], flush=True)
    sh("git -C /repo worktree remove --force %s" % wt)
ths = [threading.Thread(target=work, args=(i,)) for i in range(int(os.environ.get("WORKERS", "2")))]
[t.start() for t in ths]; [t.join() for t in ths]
