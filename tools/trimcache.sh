#!/bin/bash
# development aid: builds against many scratch worktrees fill the Go build cache (tens of GB per wave); trim it when it gets large
sz=$(du -s --block-size=1G /root/.cache/go-build 2>/dev/null | cut -f1)
if [ "${sz:-0}" -gt 40 ]; then
  GOFLAGS=-mod=mod /root/go/pkg/mod/golang.org/toolchain@v0.0.1-go1.24.0.linux-amd64/bin/go clean -cache 2>/dev/null
  echo "trimmed go build cache (was ${sz}G)" >&2
fi
