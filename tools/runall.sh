#!/bin/bash
# usage: runall.sh <quick|thorough> [seed] [props...]   -- runs the checks sequentially and prints one line each
TIER=${1:-quick}; SEED=${2:-1}; shift; shift
PROPS=${@:-C01 C02 C03 C04 C05 C06 C07 C08 C09 C10 C11 C12 C13 C14 C15 C16 C17 C18 C19 C20}
cd "$(dirname "$0")/.."
for p in $PROPS; do
  s=$(date +%s)
  out=$(VERIF_SEED=$SEED ./check $p $TIER 2>&1); rc=$?
  echo "$p rc=$rc $(( $(date +%s) - s ))s :: $(echo "$out" | grep -v 'rapid\] draw' | grep -E 'OK|VIOLATION|INCONCLUSIVE|KNOWN' | head -3 | cut -c1-300 | tr '\n' ' ')"
done
