// Command genadapters writes eng/adapters_gen.go: concrete instantiations of every generated ark type
// (Map, Map1..12, Filter0..8/Query0..8, Exchange1..8, Observer1..4) over tuples of the component universe,
// wrapped behind the arity-independent interfaces of eng/adapters.go.
package main

import (
	"fmt"
	"os"
	"strings"
)

var names = []string{"CA", "CB", "CC", "CD", "CE", "CF", "CG", "CBig", "CTag", "CP", "CS", "CStr", "CM", "R1", "R2", "R3"}

const nUni = 16

type lcg uint64

func (l *lcg) next(n int) int {
	*l = *l*6364136223846793005 + 1442695040888963407
	return int((uint64(*l) >> 33) % uint64(n))
}

// tuple draws n distinct universe indices; if wantRel >= 0 a relation component is forced to that position.
func tuple(r *lcg, n int, wantRel int, maxRel int) []int {
	for {
		perm := make([]int, nUni)
		for i := range perm {
			perm[i] = i
		}
		for i := nUni - 1; i > 0; i-- {
			j := r.next(i + 1)
			perm[i], perm[j] = perm[j], perm[i]
		}
		t := perm[:n]
		nrel := 0
		for _, c := range t {
			if c >= 13 {
				nrel++
			}
		}
		if nrel > maxRel {
			continue
		}
		if wantRel >= 0 {
			if wantRel >= n {
				wantRel = n - 1
			}
			if t[wantRel] < 13 {
				// swap in a relation component
				rel := 13 + r.next(3)
				found := false
				for i, c := range t {
					if c == rel {
						t[i], t[wantRel] = t[wantRel], t[i]
						found = true
					}
				}
				if !found {
					t[wantRel] = rel
				}
			}
			nrel = 0
			for _, c := range t {
				if c >= 13 {
					nrel++
				}
			}
			if nrel > maxRel {
				continue
			}
		}
		out := make([]int, n)
		copy(out, t)
		return out
	}
}

func tuples(r *lcg, n, count int, maxRel int) [][]int {
	var out [][]int
	seen := map[string]bool{}
	for len(out) < count {
		want := -1
		if n == 1 {
			// all single-component tuples are distinct universe types; relation types appear by chance
			t := tuple(r, n, -1, maxRel)
			if len(out) < 3 {
				t = []int{13 + len(out)}
			}
			k := fmt.Sprint(t)
			if !seen[k] {
				seen[k] = true
				out = append(out, t)
			}
			continue
		}
		switch len(out) % 3 {
		case 0:
		case 1:
			want = n - 1 // relation at the last position
		case 2:
			want = n / 2
		}
		t := tuple(r, n, want, maxRel)
		k := fmt.Sprint(t)
		if seen[k] {
			continue
		}
		seen[k] = true
		out = append(out, t)
	}
	return out
}

var b strings.Builder

func p(format string, a ...any) { fmt.Fprintf(&b, format, a...) }

func typeList(t []int) string {
	s := make([]string, len(t))
	for i, c := range t {
		s[i] = "comps." + names[c]
	}
	return strings.Join(s, ", ")
}

func intList(t []int) string {
	s := make([]string, len(t))
	for i, c := range t {
		s[i] = fmt.Sprint(c)
	}
	return strings.Join(s, ", ")
}

func ptrParams(t []int) string {
	s := make([]string, len(t))
	for i, c := range t {
		s[i] = fmt.Sprintf("p%d *comps.%s", i, names[c])
	}
	return strings.Join(s, ", ")
}

func ptrArgs(t []int) string {
	s := make([]string, len(t))
	for i := range t {
		s[i] = fmt.Sprintf("unsafe.Pointer(p%d)", i)
	}
	return strings.Join(s, ", ")
}

func makeArgs(t []int) string {
	s := make([]string, len(t))
	for i, c := range t {
		s[i] = fmt.Sprintf("comps.Make[comps.%s](vals[%d])", names[c], i)
	}
	return strings.Join(s, ", ")
}

func genMap(idx int, t []int) string {
	n := len(t)
	name := fmt.Sprintf("map%d_%d", n, idx)
	tl := typeList(t)
	p("\ntype %s struct {\n\tw *ecs.World\n\tm *ecs.Map%d[%s]\n}\n\n", name, n, tl)
	p("func new_%s(w *ecs.World) Mapper { return &%s{w: w, m: ecs.NewMap%d[%s](w)} }\n", name, name, n, tl)
	p("func (a *%s) Name() string { return \"Map%d[%s]\" }\n", name, n, strings.ReplaceAll(tl, "comps.", ""))
	p("func (a *%s) Comps() []int { return []int{%s} }\n", name, intList(t))
	p("func (a *%s) NewEntity(vals []int64, rels []RelArg) ecs.Entity {\n\treturn a.m.NewEntity(%s, buildRels(a.w, rels)...)\n}\n", name, makeArgs(t))
	p("func (a *%s) NewEntityFn(fn func(Ptrs), rels []RelArg) ecs.Entity {\n\tif fn == nil {\n\t\treturn a.m.NewEntityFn(nil, buildRels(a.w, rels)...)\n\t}\n\treturn a.m.NewEntityFn(func(%s) { fn(Ptrs{%s}) }, buildRels(a.w, rels)...)\n}\n", name, ptrParams(t), ptrArgs(t))
	p("func (a *%s) NewBatch(n int, vals []int64, rels []RelArg) {\n\ta.m.NewBatch(n, %s, buildRels(a.w, rels)...)\n}\n", name, makeArgs(t))
	p("func (a *%s) NewBatchFn(n int, fn func(ecs.Entity, Ptrs), rels []RelArg) {\n\tif fn == nil {\n\t\ta.m.NewBatchFn(n, nil, buildRels(a.w, rels)...)\n\t\treturn\n\t}\n\ta.m.NewBatchFn(n, func(e ecs.Entity, %s) { fn(e, Ptrs{%s}) }, buildRels(a.w, rels)...)\n}\n", name, ptrParams(t), ptrArgs(t))
	// Get
	rets := make([]string, n)
	for i := range t {
		rets[i] = fmt.Sprintf("p%d", i)
	}
	p("func (a *%s) Get(e ecs.Entity) Ptrs {\n\t%s := a.m.Get(e)\n\treturn Ptrs{%s}\n}\n", name, strings.Join(rets, ", "), ptrArgs(t))
	p("func (a *%s) GetUnchecked(e ecs.Entity) Ptrs {\n\t%s := a.m.GetUnchecked(e)\n\treturn Ptrs{%s}\n}\n", name, strings.Join(rets, ", "), ptrArgs(t))
	p("func (a *%s) HasAll(e ecs.Entity) bool { return a.m.HasAll(e) }\n", name)
	p("func (a *%s) Add(e ecs.Entity, vals []int64, rels []RelArg) {\n\ta.m.Add(e, %s, buildRels(a.w, rels)...)\n}\n", name, makeArgs(t))
	p("func (a *%s) AddFn(e ecs.Entity, fn func(Ptrs), rels []RelArg) {\n\tif fn == nil {\n\t\ta.m.AddFn(e, nil, buildRels(a.w, rels)...)\n\t\treturn\n\t}\n\ta.m.AddFn(e, func(%s) { fn(Ptrs{%s}) }, buildRels(a.w, rels)...)\n}\n", name, ptrParams(t), ptrArgs(t))
	p("func (a *%s) Set(e ecs.Entity, vals []int64) {\n\ta.m.Set(e, %s)\n}\n", name, makeArgs(t))
	p("func (a *%s) AddBatch(b ecs.Batch, vals []int64, rels []RelArg) {\n\ta.m.AddBatch(b, %s, buildRels(a.w, rels)...)\n}\n", name, makeArgs(t))
	p("func (a *%s) AddBatchFn(b ecs.Batch, fn func(ecs.Entity, Ptrs), rels []RelArg) {\n\tif fn == nil {\n\t\ta.m.AddBatchFn(b, nil, buildRels(a.w, rels)...)\n\t\treturn\n\t}\n\ta.m.AddBatchFn(b, func(e ecs.Entity, %s) { fn(e, Ptrs{%s}) }, buildRels(a.w, rels)...)\n}\n", name, ptrParams(t), ptrArgs(t))
	p("func (a *%s) Remove(e ecs.Entity) { a.m.Remove(e) }\n", name)
	p("func (a *%s) RemoveBatch(b ecs.Batch, fn func(ecs.Entity)) { a.m.RemoveBatch(b, fn) }\n", name)
	p("func (a *%s) GetRelation(e ecs.Entity, pos int) ecs.Entity { return a.m.GetRelation(e, pos) }\n", name)
	p("func (a *%s) GetRelationUnchecked(e ecs.Entity, pos int) ecs.Entity { return a.m.GetRelationUnchecked(e, pos) }\n", name)
	p("func (a *%s) SetRelations(e ecs.Entity, rels []RelArg) { a.m.SetRelations(e, buildRels(a.w, rels)...) }\n", name)
	p("func (a *%s) SetRelationsBatch(b ecs.Batch, fn func(ecs.Entity), rels []RelArg) {\n\ta.m.SetRelationsBatch(b, fn, buildRels(a.w, rels)...)\n}\n", name)
	return name
}

func genMapS(c int) string {
	name := fmt.Sprintf("mapS_%d", c)
	tn := "comps." + names[c]
	p("\ntype %s struct {\n\tw *ecs.World\n\tm *ecs.Map[%s]\n}\n\n", name, tn)
	p("func new_%s(w *ecs.World) Mapper { return &%s{w: w, m: ecs.NewMap[%s](w)} }\n", name, name, tn)
	p("func (a *%s) Name() string { return \"Map[%s]\" }\n", name, names[c])
	p("func (a *%s) Comps() []int { return []int{%d} }\n", name, c)
	p("func (a *%s) NewEntity(vals []int64, rels []RelArg) ecs.Entity {\n\treturn a.m.NewEntity(comps.Make[%s](vals[0]), targetsOf(rels)...)\n}\n", name, tn)
	p("func (a *%s) NewEntityFn(fn func(Ptrs), rels []RelArg) ecs.Entity {\n\tif fn == nil {\n\t\treturn a.m.NewEntityFn(nil, targetsOf(rels)...)\n\t}\n\treturn a.m.NewEntityFn(func(p0 *%s) { fn(Ptrs{unsafe.Pointer(p0)}) }, targetsOf(rels)...)\n}\n", name, tn)
	p("func (a *%s) NewBatch(n int, vals []int64, rels []RelArg) {\n\ta.m.NewBatch(n, comps.Make[%s](vals[0]), targetsOf(rels)...)\n}\n", name, tn)
	p("func (a *%s) NewBatchFn(n int, fn func(ecs.Entity, Ptrs), rels []RelArg) {\n\tif fn == nil {\n\t\ta.m.NewBatchFn(n, nil, targetsOf(rels)...)\n\t\treturn\n\t}\n\ta.m.NewBatchFn(n, func(e ecs.Entity, p0 *%s) { fn(e, Ptrs{unsafe.Pointer(p0)}) }, targetsOf(rels)...)\n}\n", name, tn)
	p("func (a *%s) Get(e ecs.Entity) Ptrs { return Ptrs{unsafe.Pointer(a.m.Get(e))} }\n", name)
	p("func (a *%s) GetUnchecked(e ecs.Entity) Ptrs { return Ptrs{unsafe.Pointer(a.m.GetUnchecked(e))} }\n", name)
	p("func (a *%s) HasAll(e ecs.Entity) bool { return a.m.Has(e) }\n", name)
	p("func (a *%s) Add(e ecs.Entity, vals []int64, rels []RelArg) {\n\ta.m.Add(e, comps.Make[%s](vals[0]), targetsOf(rels)...)\n}\n", name, tn)
	p("func (a *%s) AddFn(e ecs.Entity, fn func(Ptrs), rels []RelArg) {\n\tif fn == nil {\n\t\ta.m.AddFn(e, nil, targetsOf(rels)...)\n\t\treturn\n\t}\n\ta.m.AddFn(e, func(p0 *%s) { fn(Ptrs{unsafe.Pointer(p0)}) }, targetsOf(rels)...)\n}\n", name, tn)
	p("func (a *%s) Set(e ecs.Entity, vals []int64) { a.m.Set(e, comps.Make[%s](vals[0])) }\n", name, tn)
	p("func (a *%s) AddBatch(b ecs.Batch, vals []int64, rels []RelArg) {\n\ta.m.AddBatch(b, comps.Make[%s](vals[0]), targetsOf(rels)...)\n}\n", name, tn)
	p("func (a *%s) AddBatchFn(b ecs.Batch, fn func(ecs.Entity, Ptrs), rels []RelArg) {\n\tif fn == nil {\n\t\ta.m.AddBatchFn(b, nil, targetsOf(rels)...)\n\t\treturn\n\t}\n\ta.m.AddBatchFn(b, func(e ecs.Entity, p0 *%s) { fn(e, Ptrs{unsafe.Pointer(p0)}) }, targetsOf(rels)...)\n}\n", name, tn)
	p("func (a *%s) Remove(e ecs.Entity) { a.m.Remove(e) }\n", name)
	p("func (a *%s) RemoveBatch(b ecs.Batch, fn func(ecs.Entity)) { a.m.RemoveBatch(b, fn) }\n", name)
	p("func (a *%s) GetRelation(e ecs.Entity, pos int) ecs.Entity { return a.m.GetRelation(e) }\n", name)
	p("func (a *%s) GetRelationUnchecked(e ecs.Entity, pos int) ecs.Entity { return a.m.GetRelationUnchecked(e) }\n", name)
	p("func (a *%s) SetRelations(e ecs.Entity, rels []RelArg) { a.m.SetRelation(e, rels[0].Target) }\n", name)
	p("func (a *%s) SetRelationsBatch(b ecs.Batch, fn func(ecs.Entity), rels []RelArg) {\n\ta.m.SetRelationBatch(b, rels[0].Target, fn)\n}\n", name)
	return name
}

func genExchange(idx int, t []int) string {
	n := len(t)
	name := fmt.Sprintf("ex%d_%d", n, idx)
	tl := typeList(t)
	p("\ntype %s struct {\n\tw *ecs.World\n\tm *ecs.Exchange%d[%s]\n}\n\n", name, n, tl)
	p("func new_%s(w *ecs.World) Exchanger { return &%s{w: w, m: ecs.NewExchange%d[%s](w)} }\n", name, name, n, tl)
	p("func (a *%s) Name() string { return \"Exchange%d[%s]\" }\n", name, n, strings.ReplaceAll(tl, "comps.", ""))
	p("func (a *%s) Comps() []int { return []int{%s} }\n", name, intList(t))
	p("func (a *%s) Removes(c []ecs.Comp) { a.m.Removes(c...) }\n", name)
	for _, meth := range []string{"Add", "Exchange"} {
		p("func (a *%s) %s(e ecs.Entity, vals []int64, rels []RelArg) {\n\ta.m.%s(e, %s, buildRels(a.w, rels)...)\n}\n", name, meth, meth, makeArgs(t))
		p("func (a *%s) %sFn(e ecs.Entity, fn func(Ptrs), rels []RelArg) {\n\tif fn == nil {\n\t\ta.m.%sFn(e, nil, buildRels(a.w, rels)...)\n\t\treturn\n\t}\n\ta.m.%sFn(e, func(%s) { fn(Ptrs{%s}) }, buildRels(a.w, rels)...)\n}\n", name, meth, meth, meth, ptrParams(t), ptrArgs(t))
		p("func (a *%s) %sBatch(b ecs.Batch, vals []int64, rels []RelArg) {\n\ta.m.%sBatch(b, %s, buildRels(a.w, rels)...)\n}\n", name, meth, meth, makeArgs(t))
		p("func (a *%s) %sBatchFn(b ecs.Batch, fn func(ecs.Entity, Ptrs), rels []RelArg) {\n\tif fn == nil {\n\t\ta.m.%sBatchFn(b, nil, buildRels(a.w, rels)...)\n\t\treturn\n\t}\n\ta.m.%sBatchFn(b, func(e ecs.Entity, %s) { fn(e, Ptrs{%s}) }, buildRels(a.w, rels)...)\n}\n", name, meth, meth, meth, ptrParams(t), ptrArgs(t))
	}
	p("func (a *%s) Remove(e ecs.Entity) { a.m.Remove(e) }\n", name)
	p("func (a *%s) RemoveBatch(b ecs.Batch, fn func(ecs.Entity)) { a.m.RemoveBatch(b, fn) }\n", name)
	return name
}

func genFilter(idx int, t []int) string {
	n := len(t)
	name := fmt.Sprintf("flt%d_%d", n, idx)
	tl := typeList(t)
	gen := ""
	if n > 0 {
		gen = "[" + tl + "]"
	}
	p("\ntype %s struct {\n\tw *ecs.World\n\tf *ecs.Filter%d%s\n}\n\n", name, n, gen)
	p("type q%s struct {\n\tq ecs.Query%d%s\n}\n\n", name, n, gen)
	p("func new_%s(w *ecs.World) Filter { return &%s{w: w, f: ecs.NewFilter%d%s(w)} }\n", name, name, n, gen)
	p("func (a *%s) Name() string { return \"Filter%d[%s]\" }\n", name, n, strings.ReplaceAll(tl, "comps.", ""))
	p("func (a *%s) Comps() []int { return []int{%s} }\n", name, intList(t))
	p("func (a *%s) With(c []ecs.Comp) { a.f.With(c...) }\n", name)
	p("func (a *%s) Without(c []ecs.Comp) { a.f.Without(c...) }\n", name)
	p("func (a *%s) Exclusive() { a.f.Exclusive() }\n", name)
	p("func (a *%s) Relations(rels []RelArg) { a.f.Relations(buildRels(a.w, rels)...) }\n", name)
	p("func (a *%s) Register() { a.f.Register() }\n", name)
	p("func (a *%s) Unregister() { a.f.Unregister() }\n", name)
	p("func (a *%s) Query(rels []RelArg) Query { return &q%s{q: a.f.Query(buildRels(a.w, rels)...)} }\n", name, name)
	p("func (a *%s) Batch(rels []RelArg) ecs.Batch { return a.f.Batch(buildRels(a.w, rels)...) }\n", name)
	p("func (a *q%s) Next() bool { return a.q.Next() }\n", name)
	p("func (a *q%s) Entity() ecs.Entity { return a.q.Entity() }\n", name)
	if n == 0 {
		p("func (a *q%s) Get() Ptrs { return nil }\n", name)
		p("func (a *q%s) GetRelation(pos int) ecs.Entity { panic(\"Query0 has no GetRelation\") }\n", name)
	} else {
		rets := make([]string, n)
		for i := range t {
			rets[i] = fmt.Sprintf("p%d", i)
		}
		p("func (a *q%s) Get() Ptrs {\n\t%s := a.q.Get()\n\treturn Ptrs{%s}\n}\n", name, strings.Join(rets, ", "), ptrArgs(t))
		p("func (a *q%s) GetRelation(pos int) ecs.Entity { return a.q.GetRelation(pos) }\n", name)
	}
	p("func (a *q%s) Count() int { return a.q.Count() }\n", name)
	p("func (a *q%s) EntityAt(i int) ecs.Entity { return a.q.EntityAt(i) }\n", name)
	p("func (a *q%s) Close() { a.q.Close() }\n", name)
	return name
}

func genObs(idx int, t []int) string {
	n := len(t)
	name := fmt.Sprintf("obs%d_%d", n, idx)
	tl := typeList(t)
	p("\ntype %s struct {\n\to *ecs.Observer%d[%s]\n}\n\n", name, n, tl)
	p("func new_%s(evt ecs.EventType) Obs { return &%s{o: ecs.Observe%d[%s](evt)} }\n", name, name, n, tl)
	p("func (a *%s) Name() string { return \"Observer%d[%s]\" }\n", name, n, strings.ReplaceAll(tl, "comps.", ""))
	p("func (a *%s) Comps() []int { return []int{%s} }\n", name, intList(t))
	p("func (a *%s) For(c []ecs.Comp) { a.o.For(c...) }\n", name)
	p("func (a *%s) With(c []ecs.Comp) { a.o.With(c...) }\n", name)
	p("func (a *%s) Without(c []ecs.Comp) { a.o.Without(c...) }\n", name)
	p("func (a *%s) Exclusive() { a.o.Exclusive() }\n", name)
	p("func (a *%s) Do(fn func(ecs.Entity, Ptrs)) {\n\ta.o.Do(func(e ecs.Entity, %s) { fn(e, Ptrs{%s}) })\n}\n", name, ptrParams(t), ptrArgs(t))
	p("func (a *%s) Register(w *ecs.World) { a.o.Register(w) }\n", name)
	p("func (a *%s) Unregister(w *ecs.World) { a.o.Unregister(w) }\n", name)
	return name
}

type inst struct {
	name  string
	comps []int
}

func table(varName, ifc, ctorArg string, list []inst) {
	p("\n// %s lists all generated instantiations.\nvar %s = []struct {\n\tName  string\n\tArity int\n\tComps []int\n\tMask  uint16\n\tNew   func(%s) %s\n}{\n", varName, varName, ctorArg, ifc)
	for _, in := range list {
		var m uint16
		for _, c := range in.comps {
			m |= 1 << uint(c)
		}
		p("\t{%q, %d, []int{%s}, %#x, new_%s},\n", in.name, len(in.comps), intList(in.comps), m, in.name)
	}
	p("}\n")
}

func main() {
	r := lcg(20261004)
	p("// Code generated by cmd/genadapters; DO NOT EDIT.\n\npackage eng\n\nimport (\n\t\"unsafe\"\n\n\t\"arkverif/comps\"\n\n\t\"github.com/mlange-42/ark/ecs\"\n)\n")

	var maps, exs, flts, obss []inst
	for c := 0; c < nUni; c++ {
		maps = append(maps, inst{genMapS(c), []int{c}})
	}
	for c := 0; c < nUni; c++ {
		maps = append(maps, inst{genMap(c, []int{c}), []int{c}})
	}
	for n := 2; n <= 12; n++ {
		for i, t := range tuples(&r, n, 3, 3) {
			maps = append(maps, inst{genMap(i, t), t})
		}
	}
	for n := 1; n <= 8; n++ {
		cnt := 3
		if n == 1 {
			cnt = 6
		}
		for i, t := range tuples(&r, n, cnt, 3) {
			exs = append(exs, inst{genExchange(i, t), t})
		}
	}
	flts = append(flts, inst{genFilter(0, nil), nil})
	for n := 1; n <= 8; n++ {
		cnt := 4
		if n == 1 {
			cnt = 8
		}
		for i, t := range tuples(&r, n, cnt, 3) {
			flts = append(flts, inst{genFilter(i, t), t})
		}
	}
	for n := 1; n <= 4; n++ {
		cnt := 4
		if n == 1 {
			cnt = 8
		}
		for i, t := range tuples(&r, n, cnt, 3) {
			obss = append(obss, inst{genObs(i, t), t})
		}
	}
	table("MapInsts", "Mapper", "*ecs.World", maps)
	table("ExInsts", "Exchanger", "*ecs.World", exs)
	table("FilterInsts", "Filter", "*ecs.World", flts)
	table("ObsInsts", "Obs", "ecs.EventType", obss)

	out := instrument(b.String())
	if err := os.WriteFile("eng/adapters_gen.go", []byte(out), 0o644); err != nil {
		panic(err)
	}
}

// instrument adds an API-coverage counter call to every adapter method.
func instrument(src string) string {
	lines := strings.Split(src, "\n")
	var out []string
	kind := map[string]string{}
	for _, l := range lines {
		// type map3_0 struct { ... m *ecs.Map3[...] }
		if strings.HasPrefix(l, "type ") && strings.HasSuffix(l, "struct {") {
			f := strings.Fields(l)
			kind["cur"] = f[1]
		}
		for _, pre := range []string{"\tm *ecs.", "\tf *ecs.", "\to *ecs.", "\tq ecs."} {
			if strings.HasPrefix(l, pre) {
				t := strings.TrimPrefix(l, pre)
				if i := strings.Index(t, "["); i >= 0 {
					t = t[:i]
				}
				kind[kind["cur"]] = t
			}
		}
		if strings.HasPrefix(l, "func (a *") && strings.HasSuffix(l, " }") && strings.Contains(l, " { ") {
			recv := l[len("func (a *"):strings.Index(l, ")")]
			rest := l[strings.Index(l, ")")+2:]
			meth := rest[:strings.Index(rest, "(")]
			if meth != "Name" && meth != "Comps" {
				i := strings.Index(l, " { ")
				out = append(out, l[:i+2], fmt.Sprintf("\thit(%q)", kind[recv]+"."+meth), "\t"+strings.TrimSuffix(l[i+3:], " }"), "}")
				continue
			}
		}
		out = append(out, l)
		if strings.HasPrefix(l, "func (a *") && strings.HasSuffix(l, "{") {
			recv := l[len("func (a *"):strings.Index(l, ")")]
			rest := l[strings.Index(l, ")")+2:]
			meth := rest[:strings.Index(rest, "(")]
			if meth == "Name" || meth == "Comps" {
				continue
			}
			out = append(out, fmt.Sprintf("\thit(%q)", kind[recv]+"."+meth))
		}
	}
	// the list of all keys, for the vacuity check of C14
	seen := map[string]bool{}
	var keys []string
	for _, l := range out {
		if strings.HasPrefix(l, "\thit(\"") {
			k := strings.TrimSuffix(strings.TrimPrefix(l, "\thit(\""), "\")")
			if !seen[k] {
				seen[k] = true
				keys = append(keys, k)
			}
		}
	}
	out = append(out, "", "// AllAPIKeys lists every (generated ark type, method) pair the adapters can call.", "var AllAPIKeys = []string{")
	for _, k := range keys {
		out = append(out, fmt.Sprintf("\t%q,", k))
	}
	out = append(out, "}", "")
	return strings.Join(out, "\n")
}
