// Command arkrun executes op lists (one JSON case per line on stdin) on a fresh world and prints the trace of
// observable results (one JSON object per line on stdout). It is built once per build-tag combination (C20) and
// started several times (C12: separate processes have separate hash seeds).
package main

import (
	"bufio"
	"encoding/json"
	"fmt"
	"os"
	"strings"

	"arkverif/eng"
)

type reply struct {
	Trace     string `json:"trace"`
	Violation string `json:"violation,omitempty"`
	Crash     string `json:"crash,omitempty"`
}

func run(cs *eng.Case) (r reply) {
	pd := eng.Props[cs.Property]
	var sb strings.Builder
	defer func() {
		if p := recover(); p != nil {
			if v, ok := p.(*eng.Violation); ok {
				r = reply{Trace: sb.String(), Violation: v.Sig + ": " + v.Msg}
				return
			}
			r = reply{Trace: sb.String(), Crash: fmt.Sprint(p)}
		}
	}()
	opt := pd.Opt
	it := eng.NewInterp(cs.Cfg, []eng.Policy{{}}, opt)
	it.B[0].Trace = &sb
	for i := range cs.Ops {
		it.Apply(&cs.Ops[i])
	}
	it.Final()
	return reply{Trace: sb.String()}
}

func main() {
	in := bufio.NewReaderSize(os.Stdin, 1<<20)
	out := bufio.NewWriter(os.Stdout)
	for {
		line, err := in.ReadBytes('\n')
		if len(line) > 1 {
			cs := &eng.Case{}
			var r reply
			if e := json.Unmarshal(line, cs); e != nil {
				r = reply{Crash: "bad input: " + e.Error()}
			} else {
				r = run(cs)
			}
			b, _ := json.Marshal(r)
			out.Write(b)
			out.WriteByte('\n')
			out.Flush()
		}
		if err != nil {
			return
		}
	}
}
