// Package comps is the fixed component-type universe used by all checks.
//
// Every type carries one int64 payload through SetV/GetV so that any API path can write a value and any other
// path can read it back. Pointer-bearing types keep the payload behind the pointer together with a checksum,
// so that a stale or corrupted pointee is detected (C11).
package comps

import (
	"reflect"
	"unsafe"

	"github.com/mlange-42/ark/ecs"
)

// N is the number of component types in the universe.
const N = 16

// Universe indices.
const (
	ICA = iota
	ICB
	ICC
	ICD
	ICE
	ICF
	ICG
	ICBig
	ICTag
	ICP
	ICS
	ICStr
	ICM
	IR1
	IR2
	IR3
)

type CA struct{ V int64 }
type CB struct{ X, Y int32 }
type CC struct{ V [3]int64 }
type CD struct{ F float64 }
type CE struct{ V int16 }
type CF struct {
	A uint8
	B uint64
}
type CG struct{ A, B int64 }
type CBig struct{ V [20]int64 }
type CTag struct{}
type CP struct{ P *Box }
type CS struct{ S []int64 }
type CStr struct{ S string }
type CM struct{ M map[int32]int64 }
type R1 struct{ ecs.RelationMarker }
type R2 struct {
	ecs.RelationMarker
	V int64
}
type R3 struct {
	ecs.RelationMarker
	P *Box
}

// Box is the pointee of pointer-bearing components. Sum must equal Check(V).
type Box struct {
	V   int64
	Sum int64
	Pad [4]int64
}

// Check is the checksum of a Box payload.
func Check(v int64) int64 { return v*2654435761 + 12345 }

// NewBox creates a pointee for v.
func NewBox(v int64) *Box {
	c := Check(v)
	return &Box{V: v, Sum: c, Pad: [4]int64{c, ^c, c, ^c}}
}

// OK reports whether the box is intact.
func (b *Box) OK() bool {
	c := Check(b.V)
	return b.Sum == c && b.Pad == [4]int64{c, ^c, c, ^c}
}

func (c *CA) SetV(v int64) { c.V = v }
func (c *CA) GetV() int64  { return c.V }
func (c *CB) SetV(v int64) { c.X, c.Y = int32(v), int32(v>>32) }
func (c *CB) GetV() int64  { return int64(uint32(c.X)) | int64(c.Y)<<32 }
func (c *CC) SetV(v int64) { c.V = [3]int64{v, ^v, v + 1} }
func (c *CC) GetV() int64 {
	if c.V[1] != ^c.V[0] || c.V[2] != c.V[0]+1 {
		if c.V == [3]int64{} {
			return 0
		}
		return -0x7ead
	}
	return c.V[0]
}
func (c *CD) SetV(v int64) { c.F = float64(v) }
func (c *CD) GetV() int64  { return int64(c.F) }
func (c *CE) SetV(v int64) { c.V = int16(v) }
func (c *CE) GetV() int64  { return int64(c.V) }
func (c *CF) SetV(v int64) { c.A, c.B = uint8(v), uint64(v) }
func (c *CF) GetV() int64 {
	if c.A != uint8(c.B) {
		return -0x7ead
	}
	return int64(c.B)
}
func (c *CG) SetV(v int64) { c.A, c.B = v, -v }
func (c *CG) GetV() int64 {
	if c.B != -c.A {
		return -0x7ead
	}
	return c.A
}
func (c *CBig) SetV(v int64) {
	for i := range c.V {
		c.V[i] = v + int64(i)
	}
	if v == 0 {
		c.V = [20]int64{}
	}
}
func (c *CBig) GetV() int64 {
	if c.V == [20]int64{} {
		return 0
	}
	for i := range c.V {
		if c.V[i] != c.V[0]+int64(i) {
			return -0x7ead
		}
	}
	return c.V[0]
}
func (c *CTag) SetV(v int64) {}
func (c *CTag) GetV() int64  { return 0 }
func (c *CP) SetV(v int64) {
	if v == 0 {
		c.P = nil
		return
	}
	c.P = NewBox(v)
}
func (c *CP) GetV() int64 { return boxV(c.P) }
func (c *CS) SetV(v int64) {
	if v == 0 {
		c.S = nil
		return
	}
	c.S = []int64{v, Check(v), v}
}
func (c *CS) GetV() int64 {
	if c.S == nil {
		return 0
	}
	if len(c.S) != 3 || cap(c.S) != 3 || c.S[1] != Check(c.S[0]) || c.S[2] != c.S[0] {
		return -0x7ead
	}
	return c.S[0]
}
func (c *CStr) SetV(v int64) {
	if v == 0 {
		c.S = ""
		return
	}
	c.S = encStr(v)
}
func (c *CStr) GetV() int64 {
	if c.S == "" {
		return 0
	}
	return decStr(c.S)
}
func (c *CM) SetV(v int64) {
	if v == 0 {
		c.M = nil
		return
	}
	c.M = map[int32]int64{1: v, 2: Check(v)}
}
func (c *CM) GetV() int64 {
	if c.M == nil {
		return 0
	}
	if len(c.M) != 2 || c.M[2] != Check(c.M[1]) {
		return -0x7ead
	}
	return c.M[1]
}
func (c *R1) SetV(v int64) {}
func (c *R1) GetV() int64  { return 0 }
func (c *R2) SetV(v int64) { c.V = v }
func (c *R2) GetV() int64  { return c.V }
func (c *R3) SetV(v int64) {
	if v == 0 {
		c.P = nil
		return
	}
	c.P = NewBox(v)
}
func (c *R3) GetV() int64 { return boxV(c.P) }

func boxV(b *Box) int64 {
	if b == nil {
		return 0
	}
	if !b.OK() {
		return -0x7ead
	}
	return b.V
}

func encStr(v int64) string {
	const digits = "0123456789abcdef"
	buf := make([]byte, 0, 40)
	buf = append(buf, "v="...)
	u := uint64(v)
	for i := 0; i < 16; i++ {
		buf = append(buf, digits[(u>>(60-4*uint(i)))&15])
	}
	buf = append(buf, ";c="...)
	u = uint64(Check(v))
	for i := 0; i < 16; i++ {
		buf = append(buf, digits[(u>>(60-4*uint(i)))&15])
	}
	return string(buf)
}

func decStr(s string) int64 {
	if len(s) != 37 || s[:2] != "v=" || s[18:21] != ";c=" {
		return -0x7ead
	}
	hex := func(t string) (uint64, bool) {
		var u uint64
		for i := 0; i < len(t); i++ {
			c := t[i]
			switch {
			case c >= '0' && c <= '9':
				u = u<<4 | uint64(c-'0')
			case c >= 'a' && c <= 'f':
				u = u<<4 | uint64(c-'a'+10)
			default:
				return 0, false
			}
		}
		return u, true
	}
	v, ok1 := hex(s[2:18])
	c, ok2 := hex(s[21:37])
	if !ok1 || !ok2 || int64(c) != Check(int64(v)) {
		return -0x7ead
	}
	return int64(v)
}

// Valuer is implemented by pointers to all universe types.
type Valuer interface {
	SetV(int64)
	GetV() int64
}

// PT constrains a pointer-to-T that implements Valuer.
type PT[T any] interface {
	*T
	Valuer
}

// Make returns a new *T carrying payload v.
func Make[T any, P PT[T]](v int64) *T {
	var t T
	P(&t).SetV(v)
	return &t
}

// Info describes one universe type.
type Info struct {
	Name     string
	Type     reflect.Type
	Comp     ecs.Comp
	Relation bool
	Pointer  bool  // contains Go pointers
	Size     uintptr
	Norm     func(v int64) int64 // payload as it reads back after SetV(v)
	as       func(p unsafe.Pointer) Valuer
}

func mk[T any, P PT[T]](name string, rel, ptr bool) Info {
	return Info{
		Name:     name,
		Type:     reflect.TypeFor[T](),
		Comp:     ecs.C[T](),
		Relation: rel,
		Pointer:  ptr,
		Size:     reflect.TypeFor[T]().Size(),
		Norm: func(v int64) int64 {
			var t T
			P(&t).SetV(v)
			return P(&t).GetV()
		},
		as: func(p unsafe.Pointer) Valuer { return P((*T)(p)) },
	}
}

// All lists the universe in index order.
var All = [N]Info{
	mk[CA]("CA", false, false),
	mk[CB]("CB", false, false),
	mk[CC]("CC", false, false),
	mk[CD]("CD", false, false),
	mk[CE]("CE", false, false),
	mk[CF]("CF", false, false),
	mk[CG]("CG", false, false),
	mk[CBig]("CBig", false, false),
	mk[CTag]("CTag", false, false),
	mk[CP]("CP", false, true),
	mk[CS]("CS", false, true),
	mk[CStr]("CStr", false, true),
	mk[CM]("CM", false, true),
	mk[R1]("R1", true, false),
	mk[R2]("R2", true, false),
	mk[R3]("R3", true, true),
}

// RelMask is the bit set of relation components.
const RelMask uint16 = 1<<IR1 | 1<<IR2 | 1<<IR3

// GetV reads the payload of universe type idx at p.
func GetV(idx int, p unsafe.Pointer) int64 { return All[idx].as(p).GetV() }

// SetV writes the payload of universe type idx at p.
func SetV(idx int, p unsafe.Pointer, v int64) { All[idx].as(p).SetV(v) }

// IsZeroBytes reports whether the component memory at p is all zero bytes.
func IsZeroBytes(idx int, p unsafe.Pointer) bool {
	n := All[idx].Size
	if n == 0 {
		return true
	}
	b := unsafe.Slice((*byte)(p), n)
	for _, x := range b {
		if x != 0 {
			return false
		}
	}
	return true
}

// Register registers universe type idx in the world and returns its ID.
func Register(w *ecs.World, idx int) ecs.ID { return ecs.TypeID(w, All[idx].Type) }

// RelOf builds a Rel[T](target) relation for universe type idx (also for non-relation types, for misuse checks).
func RelOf(idx int, target ecs.Entity) ecs.Relation {
	switch idx {
	case ICA:
		return ecs.Rel[CA](target)
	case ICB:
		return ecs.Rel[CB](target)
	case ICC:
		return ecs.Rel[CC](target)
	case ICD:
		return ecs.Rel[CD](target)
	case ICE:
		return ecs.Rel[CE](target)
	case ICF:
		return ecs.Rel[CF](target)
	case ICG:
		return ecs.Rel[CG](target)
	case ICBig:
		return ecs.Rel[CBig](target)
	case ICTag:
		return ecs.Rel[CTag](target)
	case ICP:
		return ecs.Rel[CP](target)
	case ICS:
		return ecs.Rel[CS](target)
	case ICStr:
		return ecs.Rel[CStr](target)
	case ICM:
		return ecs.Rel[CM](target)
	case IR1:
		return ecs.Rel[R1](target)
	case IR2:
		return ecs.Rel[R2](target)
	case IR3:
		return ecs.Rel[R3](target)
	}
	panic("bad universe index")
}

func newFrom[T any](w *ecs.World, src ecs.Entity, viaMap bool, n int) ecs.Entity {
	if viaMap {
		m := ecs.NewMap[T](w)
		if n > 0 {
			m.NewBatch(n, m.Get(src))
			return ecs.Entity{}
		}
		return m.NewEntity(m.Get(src))
	}
	m := ecs.NewMap1[T](w)
	if n > 0 {
		m.NewBatch(n, m.Get(src))
		return ecs.Entity{}
	}
	return m.NewEntity(m.Get(src))
}

// NewFrom creates an entity (or n entities, if n > 0) with the single non-relation component idx, passing the pointer
// to src's own component in the world as the initial value (Map[T] or Map1[T]).
func NewFrom(w *ecs.World, idx int, src ecs.Entity, viaMap bool, n int) ecs.Entity {
	switch idx {
	case ICA:
		return newFrom[CA](w, src, viaMap, n)
	case ICB:
		return newFrom[CB](w, src, viaMap, n)
	case ICC:
		return newFrom[CC](w, src, viaMap, n)
	case ICD:
		return newFrom[CD](w, src, viaMap, n)
	case ICE:
		return newFrom[CE](w, src, viaMap, n)
	case ICF:
		return newFrom[CF](w, src, viaMap, n)
	case ICG:
		return newFrom[CG](w, src, viaMap, n)
	case ICBig:
		return newFrom[CBig](w, src, viaMap, n)
	case ICTag:
		return newFrom[CTag](w, src, viaMap, n)
	case ICP:
		return newFrom[CP](w, src, viaMap, n)
	case ICS:
		return newFrom[CS](w, src, viaMap, n)
	case ICStr:
		return newFrom[CStr](w, src, viaMap, n)
	case ICM:
		return newFrom[CM](w, src, viaMap, n)
	}
	panic("NewFrom: not a plain component")
}
