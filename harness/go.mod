module arkverif

go 1.24

require (
	github.com/mlange-42/ark v0.0.0
	pgregory.net/rapid v1.3.0
)

replace github.com/mlange-42/ark => /repo
