package eng

import (
	"fmt"
	"sort"
	"strings"

	"arkverif/comps"

	"github.com/mlange-42/ark/ecs"
	"pgregory.net/rapid"
)

// Probe kinds: calls whose outcome the model does not predict. They are traced (panic yes/no, resulting state) so
// that executions under different build configurations can be compared with each other (C20).
var probeKinds = []string{
	"q-next-after-exhaustion-other-open", "q-copy-closed-after-original-finished", "q-entity-before-next", "q-get-before-next", "q-entity-after-exhaustion", "q-get-after-exhaustion", "q-next-after-exhaustion", "q-next-twice-after-exhaustion", "q-next-twice-after-close",
	"q-next-after-close", "q-entity-after-close", "q-count-after-close", "q-relation-before-next",
	"unsafe-get-missing", "unsafe-getrel-missing", "unsafe-has-missing", "map-get-missing", "map-set-missing", "mapn-set-missing", "mapn-getrel-missing",
	"map-getunchecked-dead", "unsafe-hasunchecked-dead", "unsafe-getunchecked-dead", "unsafe-getrelunchecked-dead", "map-getrelunchecked-dead",
}

// opProbe executes a probe on every backend, traces the outcome and re-reads the values of the touched entity.
func (it *Interp) opProbe(op *Op) {
	for _, b := range it.B {
		var res string
		p := try(func() { res = it.execProbe(b, op) })
		b.tr("probe %s panic=%v %s", op.Sub, p != nil, res)
		if b.W.IsLocked() != (it.M.OpenQ > 0) {
			// a probe that panicked inside ark must not leave the world locked; report it in the trace, the comparison decides
			b.tr("probe %s left lock state %v", op.Sub, b.W.IsLocked())
		}
		b.traceState(it.M)
	}
	it.count("probe-" + op.Sub)
	// resynchronise the model's payloads of the probed entity with backend 0 (a rejected Set may have written some)
	if it.alive(op.E) {
		e := &it.M.Ents[op.E]
		b := it.B[0]
		for _, c := range listOf(e.Mask) {
			e.Val[c] = comps.GetV(c, b.U.Get(b.H[op.E], b.IDs[c]))
		}
		for _, o := range it.B[1:] {
			for _, c := range listOf(e.Mask) {
				if v := comps.GetV(c, o.U.Get(o.H[op.E], o.IDs[c])); v != e.Val[c] {
					fail("probe|"+op.Sub+"|backends-differ", "after probe %v backends hold different values for #%d %s", op, op.E, comps.All[c].Name)
				}
			}
		}
	}
}

func (b *Backend) traceState(m *Model) {
	if b.Trace == nil {
		return
	}
	var sb strings.Builder
	for s := range m.Ents {
		if s >= len(b.H) || !b.W.Alive(b.H[s]) {
			continue
		}
		h := b.H[s]
		ids := b.U.IDs(h)
		var parts []string
		for i := 0; i < ids.Len(); i++ {
			for c := 0; c < comps.N; c++ {
				if b.Reg[c] && b.IDs[c] == ids.Get(i) {
					parts = append(parts, fmt.Sprintf("%s=%d", comps.All[c].Name, comps.GetV(c, b.U.Get(h, b.IDs[c]))))
				}
			}
		}
		sort.Strings(parts)
		fmt.Fprintf(&sb, " #%d%v{%s}", s, h, strings.Join(parts, ","))
	}
	b.tr("state%s", sb.String())
}

func (it *Interp) execProbe(b *Backend, op *Op) string {
	h := b.handle(op.E)
	var c int
	if len(op.Comps) > 0 {
		c = op.Comps[0]
	}
	deref := func(list []int, p Ptrs) string {
		var out []string
		for i, cc := range list {
			if p[i] == nil {
				// the documented way the default build rejects these calls: the caller gets a nil pointer and panics when
				// dereferencing it (for zero-size components Go has nothing to load, so the harness raises it itself)
				panic("nil component pointer")
			}
			out = append(out, fmt.Sprint(comps.GetV(cc, p[i])))
		}
		return strings.Join(out, ",")
	}
	switch op.Sub {
	case "q-entity-before-next", "q-get-before-next", "q-relation-before-next":
		q := b.openQueryOn(it.M, op.F, nil)
		defer q.Close()
		switch op.Sub {
		case "q-entity-before-next":
			return fmt.Sprint(q.Entity())
		case "q-get-before-next":
			return deref(it.queryComps(op.F), q.Get())
		default:
			return fmt.Sprint(q.GetRelation(0))
		}
	case "q-copy-closed-after-original-finished":
		// query values are plain structs: a copy taken after a successful Next goes stale when the original runs to its
		// end (which releases the lock); the stale copy is then closed (rejected: unbalanced unlock) and asked
		out := ""
		{
			q := ecs.NewUnsafeFilter(b.W).Query()
			if !q.Next() {
				return "empty"
			}
			cp := q
			for q.Next() {
			}
			p1 := try(func() { cp.Close() })
			p2 := try(func() { _ = cp.Entity() })
			p3 := try(func() { cp.Close() })
			out += fmt.Sprint("unsafe close:", p1 != nil, " entity:", p2 != nil, " close again:", p3 != nil, " locked:", b.W.IsLocked() != (it.M.OpenQ > 0))
		}
		{
			q := b.all.Query()
			if !q.Next() {
				return out + " empty"
			}
			cp := q
			for q.Next() {
			}
			p1 := try(func() { cp.Close() })
			p2 := try(func() { _ = cp.Entity() })
			p3 := try(func() { cp.Close() })
			out += fmt.Sprint(" typed close:", p1 != nil, " entity:", p2 != nil, " close again:", p3 != nil, " locked:", b.W.IsLocked() != (it.M.OpenQ > 0))
		}
		return out
	case "q-next-after-exhaustion-other-open":
		// a finished query is advanced again while another query, opened after it finished, holds the recycled lock bit
		a := b.openQueryOn(it.M, op.F, nil)
		n := 0
		for a.Next() {
			n++
		}
		other := b.all.Query()
		defer other.Close()
		p1 := try(func() { a.Next() })
		locked := b.W.IsLocked()
		p2 := try(func() { a.Close() })
		return fmt.Sprint(n, " next:", p1 != nil, " locked-while-other-open:", locked, b.W.IsLocked(), " close:", p2 != nil)
	case "q-next-twice-after-exhaustion", "q-next-twice-after-close":
		// a caller that recovers from the first rejected Next and tries again
		q := b.openQueryOn(it.M, op.F, nil)
		n := 0
		if op.Sub == "q-next-twice-after-close" {
			for i := 0; i < op.N && q.Next(); i++ {
				n++
			}
			q.Close()
		} else {
			for q.Next() {
				n++
			}
		}
		defer q.Close()
		p1 := try(func() { q.Next() })
		var r2 bool
		p2 := try(func() { r2 = q.Next() })
		return fmt.Sprint(n, " first:", p1 != nil, " second:", p2 != nil, r2, " locked:", b.W.IsLocked() != (it.M.OpenQ > 0))
	case "q-entity-after-exhaustion", "q-get-after-exhaustion", "q-next-after-exhaustion":
		q := b.openQueryOn(it.M, op.F, nil)
		n := 0
		for q.Next() {
			n++
		}
		switch op.Sub {
		case "q-entity-after-exhaustion":
			return fmt.Sprint(n, q.Entity())
		case "q-get-after-exhaustion":
			return fmt.Sprint(n, deref(it.queryComps(op.F), q.Get()))
		default:
			return fmt.Sprint(n, q.Next())
		}
	case "q-next-after-close", "q-entity-after-close", "q-count-after-close":
		q := b.openQueryOn(it.M, op.F, nil)
		steps := 0
		for i := 0; i < op.N && q.Next(); i++ {
			steps++
		}
		q.Close()
		defer q.Close()
		switch op.Sub {
		case "q-next-after-close":
			return fmt.Sprint(steps, q.Next())
		case "q-entity-after-close":
			return fmt.Sprint(steps, q.Entity())
		default:
			return fmt.Sprint(steps, q.Count())
		}
	case "unsafe-get-missing":
		return fmt.Sprint(comps.GetV(c, b.U.Get(h, b.IDs[c])))
	case "unsafe-getrel-missing":
		return fmt.Sprint(b.U.GetRelation(h, b.IDs[c]))
	case "unsafe-has-missing":
		return fmt.Sprint(b.U.Has(h, b.IDs[c]))
	case "map-get-missing":
		p := b.Mapper(c).Get(h)[0]
		return fmt.Sprint(p == nil)
	case "map-set-missing":
		b.Mapper(c).Set(h, []int64{op.Vals[0]})
		return ""
	case "mapn-set-missing":
		b.Mapper(op.M).Set(h, op.Vals)
		return ""
	case "mapn-getrel-missing":
		return fmt.Sprint(b.Mapper(op.M).GetRelation(h, op.N%len(MapInsts[op.M].Comps)))
	case "map-getunchecked-dead":
		p := b.Mapper(c).GetUnchecked(h)[0]
		return fmt.Sprint(p == nil)
	case "unsafe-hasunchecked-dead":
		return fmt.Sprint(b.U.HasUnchecked(h, b.IDs[c]))
	case "unsafe-getunchecked-dead":
		p := b.U.GetUnchecked(h, b.IDs[c])
		if p == nil {
			return "nil"
		}
		return fmt.Sprint(comps.GetV(c, p))
	case "unsafe-getrelunchecked-dead":
		return fmt.Sprint(b.serialOrRaw(b.U.GetRelationUnchecked(h, b.IDs[c])))
	case "map-getrelunchecked-dead":
		return fmt.Sprint(b.serialOrRaw(b.Mapper(c).GetRelationUnchecked(h, 0)))
	}
	panic("unknown probe " + op.Sub)
}

func (it *Interp) queryComps(fi int) []int {
	f := it.M.Filters[fi]
	if f.Inst >= 0 {
		return FilterInsts[f.Inst].Comps
	}
	return f.UComps
}

// genProbe draws a probe.
func (g *Gen) genProbe(t *rapid.T) *Op {
	m := g.m()
	op := &Op{K: "probe", Sub: rapid.SampledFrom(probeKinds).Draw(t, "probe"), E: -1}
	live := liveFilters(m)
	al := m.AliveList()
	if strings.HasPrefix(op.Sub, "q-") {
		if len(live) == 0 || m.OpenQ > 50 {
			return &Op{K: "stats"}
		}
		op.F = rapid.SampledFrom(live).Draw(t, "filter")
		op.N = rapid.IntRange(0, 3).Draw(t, "stepsBeforeClose")
		if op.Sub == "q-relation-before-next" {
			f := m.Filters[op.F]
			if len(g.It.queryComps(op.F)) == 0 || f.Inst < 0 && len(f.UComps) == 0 {
				op.Sub = "q-entity-before-next"
			}
		}
		return op
	}
	if len(al) == 0 {
		return &Op{K: "stats"}
	}
	op.E = rapid.SampledFrom(al).Draw(t, "entity")
	e := &m.Ents[op.E]
	missing := listOf(^e.Mask)
	switch op.Sub {
	case "map-getunchecked-dead", "unsafe-hasunchecked-dead", "unsafe-getunchecked-dead", "unsafe-getrelunchecked-dead", "map-getrelunchecked-dead":
		// unchecked calls on an alive entity or on a removed one (the model has no opinion about the latter, the
		// builds are compared with each other); handles whose ID is in use again are preferred
		op.Comps = []int{rapid.IntRange(0, comps.N-1).Draw(t, "comp")}
		if strings.Contains(op.Sub, "getrel") {
			op.Comps = []int{rapid.SampledFrom(listOf(comps.RelMask)).Draw(t, "relComp")}
		}
		var dead, reused []int
		for s := range m.Ents {
			if !m.Ents[s].Alive {
				dead = append(dead, s)
				if g.It.staleClass(s) == "dead-id-reused" {
					reused = append(reused, s)
				}
			}
		}
		if len(reused) > 0 && rapid.Bool().Draw(t, "reusedID") {
			op.E = rapid.SampledFrom(reused).Draw(t, "staleEntity")
		} else if len(dead) > 0 && rapid.IntRange(0, 3).Draw(t, "deadHandle") == 0 {
			op.E = rapid.SampledFrom(dead).Draw(t, "deadEntity")
		}
		return op
	case "mapn-set-missing", "mapn-getrel-missing":
		// a mapper of arity >= 2 of which the entity has some but not all components (if possible)
		var l []int
		for i := 2 * comps.N; i < len(MapInsts); i++ {
			if MapInsts[i].Mask&e.Mask != 0 && MapInsts[i].Mask&^e.Mask != 0 {
				l = append(l, i)
			}
		}
		if len(l) == 0 {
			for i := 2 * comps.N; i < len(MapInsts); i++ {
				if MapInsts[i].Mask&^e.Mask != 0 {
					l = append(l, i)
				}
			}
		}
		if len(l) == 0 {
			return &Op{K: "stats"}
		}
		op.M = rapid.SampledFrom(l).Draw(t, "mapper")
		op.Vals = g.vals(len(MapInsts[op.M].Comps))
		op.N = rapid.IntRange(0, 11).Draw(t, "pos")
		return op
	}
	if len(missing) == 0 {
		return &Op{K: "stats"}
	}
	op.Comps = []int{rapid.SampledFrom(missing).Draw(t, "missingComp")}
	op.Vals = g.vals(1)
	return op
}

var _ = ecs.Entity{}

// serialOrRaw renders a handle returned by a probe in a build-independent way.
func (b *Backend) serialOrRaw(e ecs.Entity) string {
	if e.IsZero() {
		return "zero"
	}
	if s, ok := b.Ser[e]; ok {
		return fmt.Sprint("#", s)
	}
	return fmt.Sprint(e)
}
