package eng

import (
	"arkverif/comps"

	"github.com/mlange-42/ark/ecs"
)

type savedDump struct {
	alive []bool // model liveness at dump time, by serial
	epoch int
}

type backendDump struct {
	dump ecs.EntityDump
	h    []ecs.Entity // handles by serial at dump time
}

// opDump takes an entity dump and keeps it (the world goes on changing; see opLoadSaved).
func (it *Interp) opDump(op *Op) {
	sd := &savedDump{}
	for s := range it.M.Ents {
		sd.alive = append(sd.alive, it.M.Ents[s].Alive)
	}
	sd.epoch = it.epoch
	it.saved = sd
	if it.M.OpenQ >= 64 {
		panic("bad op: dump needs a free lock bit")
	}
	it.run(op, true, func(b *Backend) {
		b.saved = &backendDump{dump: b.U.DumpEntities(), h: append([]ecs.Entity{}, b.H...)}
	})
	it.count("dump-kept")
}

// opLoadSaved resets the world and loads the dump taken earlier: the world is back at the entity state of the dump
// (without components); handles issued after the dump are outside the domain from here on.
func (it *Interp) opLoadSaved(op *Op) {
	if it.saved == nil {
		panic("bad op: no saved dump")
	}
	valid := !it.locked()
	it.run(op, valid, func(b *Backend) {
		b.W.Reset()
		if !valid {
			return
		}
		b.U.LoadEntities(&b.saved.dump)
		b.H = append([]ecs.Entity{}, b.saved.h...)
		b.Ser = map[ecs.Entity]int{}
		b.Issued = map[ecs.Entity]bool{}
		for s, h := range b.H {
			b.Ser[h] = s
			b.Issued[h] = true
		}
		for j := range b.obsOn {
			b.obsOn[j] = false
		}
	})
	if !valid {
		return
	}
	changed := len(it.M.Ents) != len(it.saved.alive)
	ents := make([]Ent, len(it.saved.alive))
	for s := range ents {
		ents[s].Alive = it.saved.alive[s]
		for c := 0; c < comps.N; c++ {
			ents[s].Tgt[c] = -1
		}
		if s < len(it.M.Ents) && it.M.Ents[s].Alive != ents[s].Alive {
			changed = true
		}
	}
	if changed {
		it.count("load-after-entity-changes")
	}
	it.M.Ents = ents
	it.pre = nil
	it.everRel = nil
	it.vacated = nil
	it.M.Open = nil
	it.epoch++
	for _, f := range it.M.Filters {
		f.Registered = false
		for _, r := range f.Rels {
			// fixed target handles stay meaningful only if they were resolved in the dump's numbering and existed then
			if r.T >= 0 && (f.Epoch != it.saved.epoch || r.T >= len(ents)) {
				f.Stale = true
			}
		}
		if !f.Stale {
			f.Epoch = it.epoch
		}
	}
	it.saved.epoch = it.epoch
	for _, o := range it.M.Obs {
		o.Registered = false
	}
	it.M.Resources = map[int]int64{}
	it.count("load-saved-dump")
}
