package eng

import (
	"fmt"
	"runtime"
	"sync/atomic"
	"testing"
	"time"

	"arkverif/comps"

	"github.com/mlange-42/ark/ecs"
	"pgregory.net/rapid"
)

// collectScenario creates n entities whose CP (and optionally R3) components point to boxes with finalizers,
// removes a drawn part of them in a drawn way and reports how many boxes were finalized and how many should be.
func collectScenario(capacity, n int, how int, keepEvery int) (finalized, expected int) {
	var fin int64
	w := ecs.NewWorld(capacity)
	mp := ecs.NewMap2[comps.CP, comps.CA](w)
	cp := ecs.NewMap1[comps.CP](w)
	tag := ecs.NewMap1[comps.CTag](w)
	ents := make([]ecs.Entity, n)
	func() {
		for i := 0; i < n; i++ {
			b := comps.NewBox(int64(i + 1))
			runtime.SetFinalizer(b, func(*comps.Box) { atomic.AddInt64(&fin, 1) })
			ents[i] = mp.NewEntity(&comps.CP{P: b}, &comps.CA{V: int64(i)})
		}
	}()
	keep := func(i int) bool { return keepEvery > 0 && i%keepEvery == 0 }
	for i := range ents {
		if !keep(i) {
			expected++
		}
	}
	switch how {
	case 0: // RemoveEntity one by one (swap-remove path)
		for i, e := range ents {
			if !keep(i) {
				w.RemoveEntity(e)
			}
		}
	case 1: // remove the component (move to another table)
		for i, e := range ents {
			if !keep(i) {
				cp.Remove(e)
			}
		}
	case 2: // batch removal of entities (table reset path)
		for i, e := range ents {
			if !keep(i) {
				tag.Add(e, &comps.CTag{})
			}
		}
		w.RemoveEntities(ecs.NewFilter1[comps.CTag](w).Batch(), nil)
	case 3: // batch removal of the component
		for i, e := range ents {
			if !keep(i) {
				tag.Add(e, &comps.CTag{})
			}
		}
		cp.RemoveBatch(ecs.NewFilter1[comps.CTag](w).Batch(), nil)
	case 4: // Reset
		expected = n
		w.Reset()
	case 5: // overwrite through Set
		for i, e := range ents {
			if !keep(i) {
				cp.Set(e, &comps.CP{})
			}
		}
	case 6: // remove, then Shrink
		for i, e := range ents {
			if !keep(i) {
				w.RemoveEntity(e)
			}
		}
		w.Shrink()
	}
	for i := range ents {
		ents[i] = ecs.Entity{}
	}
	for cycle := 0; cycle < 12 && atomic.LoadInt64(&fin) < int64(expected); cycle++ {
		runtime.GC()
		time.Sleep(2 * time.Millisecond)
	}
	finalized = int(atomic.LoadInt64(&fin))
	// the kept entities must still be intact
	q := ecs.NewFilter1[comps.CP](w).Query()
	for q.Next() {
		if p := q.Get(); p.P != nil && !p.P.OK() {
			panic("kept pointee corrupted")
		}
	}
	runtime.KeepAlive(w)
	return finalized, expected
}

var collectNames = []string{"RemoveEntity", "Remove", "RemoveEntities", "RemoveBatch", "Reset", "Set", "RemoveEntity+Shrink"}

func runCollect(t *testing.T, st *RunStats) {
	n := 0
	rapid.Check(t, func(rt *rapid.T) {
		capacity := rapid.SampledFrom([]int{1, 8, 64, 128, 256}).Draw(rt, "cap")
		count := rapid.SampledFrom([]int{3, 20, 64, 65, 100, 200}).Draw(rt, "entities")
		how := rapid.IntRange(0, len(collectNames)-1).Draw(rt, "how")
		keepEvery := rapid.SampledFrom([]int{0, 2, 3, 7}).Draw(rt, "keepEvery")
		// finalizers are "eventually": a shortfall counts only if it reproduces three times in a row
		var fin, exp int
		for attempt := 0; attempt < 3; attempt++ {
			fin, exp = collectScenario(capacity, count, how, keepEvery)
			if fin >= exp {
				break
			}
			st.Classes["collect-shortfall-retried"]++
		}
		if fin < exp {
			rt.Fatalf("VIOLATION-CASE property=C11 sig=memory|collect|%s\nafter %s of %d of %d entities (capacity %d) only %d of %d pointees were finalized within 12 GC cycles, three times in a row",
				collectNames[how], collectNames[how], exp, count, capacity, fin, exp)
		}
		if fin > exp {
			rt.Fatalf("VIOLATION-CASE property=C11 sig=memory|collect|premature\n%d pointees finalized but only %d were released (%s)", fin, exp, collectNames[how])
		}
		n++
		st.Classes["collect-"+collectNames[how]]++
		if keepEvery > 0 && count > 64 {
			st.AddNonTrivial([]byte(fmt.Sprint("collect", capacity, count, how, keepEvery)))
		}
		if len(st.Samples) < 4 && n%97 == 0 {
			st.Samples = append(st.Samples, map[string]any{"kind": "collectability scenario", "capacity": capacity, "entities": count, "released_by": collectNames[how], "keep_every": keepEvery, "finalized": fin, "expected": exp})
		}
	})
	st.Classes["collect-scenarios"] += n
}
