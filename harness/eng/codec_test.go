package eng

import (
	"bytes"
	"encoding/binary"
	"encoding/json"
	"fmt"
	"testing"

	"github.com/mlange-42/ark/ecs"
	"pgregory.net/rapid"
)

var u32 = rapid.OneOf(
	rapid.SampledFrom([]uint32{0, 1, 2, 3, 255, 256, 65535, 65536, 1<<31 - 1, 1 << 31, 1<<32 - 2, 1<<32 - 1}),
	rapid.Uint32(),
)

// checkCodec is the codec round-trip property for one (id, generation) pair.
func checkCodec(id, gen uint32) error {
	raw := make([]byte, 8)
	binary.BigEndian.PutUint32(raw[0:4], id)
	binary.BigEndian.PutUint32(raw[4:8], gen)
	var e ecs.Entity
	if err := e.UnmarshalBinary(raw); err != nil {
		return fmt.Errorf("UnmarshalBinary of 8 bytes failed: %v", err)
	}
	if e.ID() != id || e.Gen() != gen {
		return fmt.Errorf("UnmarshalBinary(%x) gives id=%d gen=%d, want %d %d", raw, e.ID(), e.Gen(), id, gen)
	}
	out, err := e.MarshalBinary()
	if err != nil || !bytes.Equal(out, raw) {
		return fmt.Errorf("MarshalBinary gives %x (err %v), want %x", out, err, raw)
	}
	prefix := []byte{0xAA, 0xBB, 0xCC}
	app, err := e.AppendBinary(append([]byte{}, prefix...))
	if err != nil || !bytes.Equal(app, append(append([]byte{}, prefix...), raw...)) {
		return fmt.Errorf("AppendBinary gives %x (err %v)", app, err)
	}
	// a reused buffer: non-empty, with spare capacity holding stale bytes; two appends in a row
	for _, n := range []int{1, 3, 4, 8, 11} {
		big := make([]byte, n, n+40)
		for i := range big[:cap(big)] {
			big[:cap(big)][i] = byte(0xC0 + i)
		}
		head := append([]byte{}, big...)
		a1, err := e.AppendBinary(big)
		if err != nil || !bytes.Equal(a1, append(append([]byte{}, head...), raw...)) {
			return fmt.Errorf("AppendBinary into a %d-byte buffer with spare capacity gives %x (err %v), want %x followed by %x", n, a1, err, head, raw)
		}
		a2, err := e.AppendBinary(a1)
		if err != nil || !bytes.Equal(a2, append(append(append([]byte{}, head...), raw...), raw...)) {
			return fmt.Errorf("second AppendBinary gives %x (err %v)", a2, err)
		}
	}
	js, err := json.Marshal(e)
	if err != nil || string(js) != fmt.Sprintf("[%d,%d]", id, gen) {
		return fmt.Errorf("json.Marshal gives %s (err %v), want [%d,%d]", js, err, id, gen)
	}
	var e2 ecs.Entity
	if err := json.Unmarshal(js, &e2); err != nil || e2 != e {
		return fmt.Errorf("json round trip gives %v (err %v), want %v", e2, err, e)
	}
	// inside a struct and a slice, by value
	type holder struct {
		E  ecs.Entity
		Es []ecs.Entity
	}
	hj, err := json.Marshal(holder{E: e, Es: []ecs.Entity{e, {}}})
	var h2 holder
	if err != nil || json.Unmarshal(hj, &h2) != nil || h2.E != e || len(h2.Es) != 2 || h2.Es[0] != e || h2.Es[1] != (ecs.Entity{}) {
		return fmt.Errorf("json round trip inside a struct failed: %s -> %+v (err %v)", hj, h2, err)
	}
	// JSON written by someone else: whitespace and indentation are insignificant
	for _, txt := range []string{fmt.Sprintf("[ %d , %d ]", id, gen), fmt.Sprintf("[\n  %d,\n  %d\n]", id, gen), fmt.Sprintf(" [%d,\t%d] ", id, gen)} {
		var e3 ecs.Entity
		if err := json.Unmarshal([]byte(txt), &e3); err != nil || e3 != e {
			return fmt.Errorf("json.Unmarshal(%q) gives %v (err %v), want %v", txt, e3, err, e)
		}
	}
	ij, err := json.MarshalIndent(holder{E: e, Es: []ecs.Entity{e}}, "", "  ")
	var h3 holder
	if err != nil || json.Unmarshal(ij, &h3) != nil || h3.E != e || len(h3.Es) != 1 || h3.Es[0] != e {
		return fmt.Errorf("indented JSON round trip failed: %s -> %+v (err %v)", ij, h3, err)
	}
	if e.IsZero() != (id == 0) {
		return fmt.Errorf("IsZero()=%v for id %d", e.IsZero(), id)
	}
	return nil
}

// checkMalformed: any byte string of length != 8 must be rejected with an error and leave the entity unchanged.
func checkMalformed(data []byte) error {
	var e ecs.Entity
	_ = e.UnmarshalBinary([]byte{0, 0, 0, 7, 0, 0, 0, 9})
	before := e
	err := e.UnmarshalBinary(data)
	if len(data) == 8 {
		if err != nil {
			return fmt.Errorf("8 bytes rejected: %v", err)
		}
		out, _ := e.MarshalBinary()
		if !bytes.Equal(out, data) {
			return fmt.Errorf("re-encoding %x gives %x", data, out)
		}
		return nil
	}
	if err == nil {
		return fmt.Errorf("%d bytes accepted without error", len(data))
	}
	if e != before {
		return fmt.Errorf("rejected input modified the entity: %v -> %v", before, e)
	}
	return nil
}

// checkCodecPair: encodings of two handles that are both kept must stay independent of each other.
func checkCodecPair(id1, gen1, id2, gen2 uint32) error {
	mk := func(id, gen uint32) (ecs.Entity, []byte) {
		raw := make([]byte, 8)
		binary.BigEndian.PutUint32(raw[0:4], id)
		binary.BigEndian.PutUint32(raw[4:8], gen)
		var e ecs.Entity
		_ = e.UnmarshalBinary(raw)
		return e, raw
	}
	e1, raw1 := mk(id1, gen1)
	e2, raw2 := mk(id2, gen2)
	// decoding is a pure function: two goroutines decoding different handles at the same time (separate worlds restoring
	// snapshots in parallel) get their own handles back (every 16th pair, so that the check stays cheap)
	if (id1^gen2)%16 == 0 {
		if err := parallelDecode(e1, e2); err != nil {
			return err
		}
	}
	b1, _ := e1.MarshalBinary()
	j1, _ := json.Marshal(e1)
	a1, _ := e1.AppendBinary(nil)
	b2, _ := e2.MarshalBinary()
	j2, _ := json.Marshal(e2)
	a2, _ := e2.AppendBinary(nil)
	if !bytes.Equal(b1, raw1) || !bytes.Equal(b2, raw2) || !bytes.Equal(a1, raw1) || !bytes.Equal(a2, raw2) {
		return fmt.Errorf("binary encodings of %v and %v kept side by side: %x %x (append: %x %x), want %x %x", e1, e2, b1, b2, a1, a2, raw1, raw2)
	}
	if string(j1) != fmt.Sprintf("[%d,%d]", id1, gen1) || string(j2) != fmt.Sprintf("[%d,%d]", id2, gen2) {
		return fmt.Errorf("JSON encodings of %v and %v kept side by side: %s %s", e1, e2, j1, j2)
	}
	var d1, d2 ecs.Entity
	if err := d1.UnmarshalBinary(b1); err != nil || d1 != e1 {
		return fmt.Errorf("first handle decodes to %v, want %v", d1, e1)
	}
	if err := d2.UnmarshalBinary(b2); err != nil || d2 != e2 || d1 != e1 {
		return fmt.Errorf("second handle decodes to %v (first now %v), want %v %v", d2, d1, e2, e1)
	}
	return nil
}

func runCodecs(t *testing.T, st *RunStats) {
	pairsKept := 0
	rapid.Check(t, func(rt *rapid.T) {
		if err := checkCodecPair(u32.Draw(rt, "id1"), u32.Draw(rt, "gen1"), u32.Draw(rt, "id2"), u32.Draw(rt, "gen2")); err != nil {
			rt.Fatalf("VIOLATION-CASE property=C17 sig=codec|independent\n%v", err)
		}
		pairsKept++
	})
	st.Classes["codec-two-handles-kept"] += pairsKept
	pairs, nontrivial := 0, 0
	rapid.Check(t, func(rt *rapid.T) {
		id, gen := u32.Draw(rt, "id"), u32.Draw(rt, "gen")
		if err := checkCodec(id, gen); err != nil {
			rt.Fatalf("VIOLATION-CASE property=C17 sig=codec|roundtrip\n%v", err)
		}
		pairs++
		if id > 255 && gen > 255 {
			nontrivial++
			st.AddNonTrivial([]byte(fmt.Sprint("codec", id, gen)))
		}
	})
	blobs := 0
	rapid.Check(t, func(rt *rapid.T) {
		data := rapid.SliceOfN(rapid.Byte(), 0, 16).Draw(rt, "data")
		if err := checkMalformed(data); err != nil {
			rt.Fatalf("VIOLATION-CASE property=C17 sig=codec|malformed\n%v", err)
		}
		blobs++
	})
	st.Classes["codec-pairs"] += pairs
	st.Classes["codec-pairs-both-fields-above-one-byte"] += nontrivial
	st.Classes["codec-byte-strings"] += blobs
}

func FuzzEntityBinary(f *testing.F) {
	f.Add([]byte{})
	f.Add([]byte{0, 0, 0, 1, 0, 0, 0, 2})
	f.Add([]byte{255, 255, 255, 255, 255, 255, 255, 255})
	f.Add([]byte{1, 2, 3, 4, 5, 6, 7})
	f.Add([]byte{1, 2, 3, 4, 5, 6, 7, 8, 9})
	f.Fuzz(func(t *testing.T, data []byte) {
		if err := checkMalformed(data); err != nil {
			t.Fatalf("VIOLATION-CASE property=C17 sig=codec|malformed\n%v", err)
		}
		if len(data) == 8 {
			if err := checkCodec(binary.BigEndian.Uint32(data[0:4]), binary.BigEndian.Uint32(data[4:8])); err != nil {
				t.Fatalf("VIOLATION-CASE property=C17 sig=codec|roundtrip\n%v", err)
			}
		}
	})
}

func FuzzEntityJSON(f *testing.F) {
	f.Add([]byte("[1,2]"))
	f.Add([]byte("[4294967295,4294967295]"))
	f.Add([]byte("[0,0]"))
	f.Add([]byte("[1]"))
	f.Add([]byte("{}"))
	f.Fuzz(func(t *testing.T, data []byte) {
		var e ecs.Entity
		if err := json.Unmarshal(data, &e); err != nil {
			return // rejected
		}
		out, err := json.Marshal(e)
		if err != nil {
			t.Fatalf("VIOLATION-CASE property=C17 sig=codec|json\nmarshal of decoded %q failed: %v", data, err)
		}
		var e2 ecs.Entity
		if err := json.Unmarshal(out, &e2); err != nil || e2 != e {
			t.Fatalf("VIOLATION-CASE property=C17 sig=codec|json\n%q decodes to %v, re-encodes to %s, decodes to %v (%v)", data, e, out, e2, err)
		}
	})
}

func parallelDecode(e1, e2 ecs.Entity) error {
	j1, _ := json.Marshal(e1)
	j2, _ := json.Marshal(e2)
	b1, _ := e1.MarshalBinary()
	b2, _ := e2.MarshalBinary()
	errs := make(chan error, 2)
	run := func(want ecs.Entity, js, bin []byte) {
		for i := 0; i < 300; i++ {
			var e ecs.Entity
			if err := json.Unmarshal(js, &e); err != nil || e != want {
				errs <- fmt.Errorf("concurrent json.Unmarshal(%s) gives %v (err %v), want %v", js, e, err, want)
				return
			}
			var f ecs.Entity
			if err := f.UnmarshalBinary(bin); err != nil || f != want {
				errs <- fmt.Errorf("concurrent UnmarshalBinary(%x) gives %v (err %v), want %v", bin, f, err, want)
				return
			}
			if out, err := json.Marshal(want); err != nil || !bytes.Equal(out, js) {
				errs <- fmt.Errorf("concurrent json.Marshal(%v) gives %s (err %v), want %s", want, out, err, js)
				return
			}
		}
		errs <- nil
	}
	go run(e1, j1, b1)
	go run(e2, j2, b2)
	var first error
	for i := 0; i < 2; i++ {
		if err := <-errs; err != nil && first == nil {
			first = err
		}
	}
	return first
}
