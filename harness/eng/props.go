package eng

import (
	"fmt"
	"reflect"
)

// weights common to world-building profiles
func baseWeights() map[string]int {
	return map[string]int{
		"new": 14, "newBatch": 5, "copy": 3, "add": 12, "remove": 9, "exchange": 8, "set": 5, "write": 5,
		"setRel": 6, "removeEntity": 7,
		"addBatch": 3, "removeBatch": 3, "exchangeBatch": 2, "setRelBatch": 2, "removeEntities": 3,
		"filterNew": 4, "filterReg": 2, "query": 6, "shrink": 2, "reset": 0, "stats": 1, "read": 2, "scenario": 2, "register": 1,
	}
}

// defaults gives every engine profile a small weight for every operation kind it does not mention, a couple of open
// queries and the event oracle: cross-feature interactions (Reset in a Shrink history, registration under lock, a dump
// loaded later, observers next to batches ...) then occur in every property's check, not only where they were expected.
var defaultWeights = map[string]int{
	"new": 4, "newBatch": 2, "copy": 1, "add": 4, "remove": 3, "exchange": 2, "set": 1, "write": 1, "setRel": 2, "removeEntity": 3,
	"addBatch": 1, "removeBatch": 1, "exchangeBatch": 1, "setRelBatch": 1, "removeEntities": 1,
	"filterNew": 2, "filterReg": 1, "query": 2, "shrink": 1, "reset": 1, "stats": 1, "read": 1, "scenario": 1, "register": 1, "regLocked": 1,
	"batchCall": 1, "dump": 1, "loadSaved": 1, "dumpLoad": 1, "obsNew": 2, "obsReg": 1, "emit": 1, "res": 1, "qOpen": 1, "qNext": 2, "qClose": 2,
}

// opsHash is a cheap, replay-stable hash of an op list.
func opsHash(ops []Op) uint64 {
	h := uint64(1469598103934665603)
	for i := range ops {
		o := &ops[i]
		h = (h ^ uint64(len(o.K)+o.E*3+o.M*7+o.N*13+len(o.Comps)*17+o.Mode*19+o.F*23)) * 1099511628211
	}
	return h
}

// withShapes adds the component-shape history (shapes.go) to a property: every 8th case also runs it, seeded by the
// case's op list, so that a failure is replayed by the same file.
func withShapes(pd *PropDef) {
	prev := pd.Extra
	pd.Extra = func(it *Interp, ops []Op) {
		if prev != nil {
			prev(it, ops)
		}
		if h := opsHash(ops); h%8 == 0 {
			shapeCheck(h)
			it.count("component-shape-history")
		}
	}
}

// withGenEdge adds the generation-edge history (genedge.go) to a property, on every 8th case.
func withGenEdge(pd *PropDef) {
	prev := pd.Extra
	pd.Extra = func(it *Interp, ops []Op) {
		if prev != nil {
			prev(it, ops)
		}
		if h := opsHash(ops); h%8 == 1 {
			genEdgeCheck(h)
			it.count("generation-edge-history")
		}
	}
}

// withGraphEdge adds the graph-capacity history (graphedge.go) to a property, on every 8th case.
func withGraphEdge(pd *PropDef) {
	prev := pd.Extra
	pd.Extra = func(it *Interp, ops []Op) {
		if prev != nil {
			prev(it, ops)
		}
		if h := opsHash(ops); h%8 == 2 {
			before := graphEdgeHits
			graphEdgeCheck(h)
			it.count("graph-capacity-history")
			if graphEdgeHits > before {
				it.count("graph-capacity-history-with-directed-call")
			}
		}
	}
}

// withScale adds the beyond-16-bit history (scale.go) to a property, on one case in every so many (it takes seconds).
func withScale(pd *PropDef, every, rest uint64) {
	prev := pd.Extra
	pd.Extra = func(it *Interp, ops []Op) {
		if prev != nil {
			prev(it, ops)
		}
		if h := opsHash(ops); h%every == rest {
			scaleCheck(h)
			it.count("beyond-16-bit-history")
		}
	}
}

// withRawFlags checks the raw-copy flags of every backend's world at the end of every case (rawflags_verif.go).
func withRawFlags(pd *PropDef) {
	prev := pd.Extra
	pd.Extra = func(it *Interp, ops []Op) {
		if prev != nil {
			prev(it, ops)
		}
		for _, b := range it.B {
			checkRawFlags(b.W)
		}
		it.count("raw-copy-flags-checked")
	}
}

func applyDefaults() {
	withRawFlags(Props["C11"])
	withScale(Props["C02"], 512, 7)
	withScale(Props["C05"], 512, 2)
	withScale(Props["C08"], 512, 11)
	withScale(Props["C14"], 512, 13)
	withScale(Props["C03"], 1024, 3)
	withScale(Props["C04"], 1024, 5)
	for _, id := range []string{"C01", "C11", "C15"} {
		withShapes(Props[id])
	}
	for _, id := range []string{"C02", "C17"} {
		withGenEdge(Props[id])
	}
	for _, id := range []string{"C19", "C01"} {
		withGraphEdge(Props[id])
	}
	for id, pd := range Props {
		if pd.Profile.Bulk == 0 {
			pd.Profile.Bulk = 6 // every profile: a few percent of the cases run on a world with hundreds of archetypes
		}
		if id == "C20" || id == "C12" {
			// traces are compared across processes/builds: keep these profiles as defined
			pd.Opt.Events = true
			continue
		}
		for k, v := range defaultWeights {
			if _, ok := pd.Profile.W[k]; !ok {
				pd.Profile.W[k] = v
			}
		}
		if !pd.Profile.Misuse {
			pd.Profile.Misuse = true
			pd.Profile.W["misuse"] = 1
		}
		if !pd.Profile.OpenQ {
			pd.Profile.OpenQ = true
			pd.Profile.MaxOpenQ = 2
		}
		pd.Opt.Events = true
		pd.Opt.Inspect = true // every profile looks at the world (reads, queries) from inside observer callbacks
	}
}

func with(w map[string]int, kv ...any) map[string]int {
	out := map[string]int{}
	for k, v := range w {
		out[k] = v
	}
	for i := 0; i+1 < len(kv); i += 2 {
		out[kv[i].(string)] = kv[i+1].(int)
	}
	return out
}

const genNote = "cases are rapid state-machine histories drawn from the model state over 16 component types (plain, zero-size, pointer-bearing, relation) " +
	"with capacities from {1,1,2,3,4,8,16,64}, 0-240 filler types before the universe (IDs in every mask word) and a drawn registration order; " +
	"distinct = distinct (configuration, op list) by FNV-64 of the JSON; "

// Props is the table of engine-based property checks.
var Props = map[string]*PropDef{}

func init() {
	Props["C01"] = &PropDef{
		ID:       "C01",
		Profile:  &Profile{Name: "store", W: with(baseWeights(), "reset", 1), MaxEnts: 40, MinOps: 10, MaxOps: 120},
		Policies: []Policy{{}},
		Opt:      Options{DeepEvery: 5},
		Rule: genNote + "every op goes through a drawn API path (Map[T], Map1-12, Exchange1-8, ID-based) and the whole world is compared with the model after every op; " +
			"non-trivial = >= 8 ops, >= 1 entity moved or removed out of a table that held >= 2 entities (swap-remove fix-up) and >= 1 table grown beyond its initial capacity",
		NonTrivial: func(it *Interp, ops []Op) bool {
			return len(ops) >= 8 && it.Cnt["move-from-shared-table"] > 0 && it.Cnt["table-grown"] > 0
		},
	}
	Props["C02"] = &PropDef{
		ID: "C02",
		Profile: &Profile{Name: "pool", W: map[string]int{"new": 20, "newBatch": 10, "copy": 6, "removeEntity": 22, "removeEntities": 8, "filterNew": 3,
			"add": 6, "remove": 2, "setRel": 6, "reset": 1, "dumpLoad": 2, "dump": 3, "loadSaved": 3, "query": 1, "stats": 1, "shrink": 1}, MaxEnts: 30, MinOps: 10, MaxOps: 150, Caps: []int{1, 1, 2, 3, 4, 8}, RelBias: 40},
		Policies: []Policy{{}},
		Opt:      Options{DeepEvery: 1},
		Rule: genNote + "creation/removal-heavy histories incl. dump/reset/load; after every op Alive(h) is compared with the model for every handle issued since the last reset, " +
			"new handles are checked against the set of issued handles, Stats.Used = Filter0 count = model; non-trivial = at some point >= 2 IDs are in the free list and >= 1 ID is re-issued with a newer generation",
		NonTrivial: func(it *Interp, ops []Op) bool { return it.Cnt["free-list-2"] > 0 && it.Cnt["id-reissued"] > 0 },
	}
	Props["C03"] = &PropDef{
		ID: "C03",
		Profile: &Profile{Name: "query", W: with(baseWeights(), "filterNew", 8, "query", 22, "filterReg", 3, "new", 18, "shrink", 2, "reset", 1, "batchCall", 3, "qOpen", 5, "qNext", 6, "qClose", 5), MaxEnts: 40, MinOps: 10, MaxOps: 100,
			RelBias: 30, OpenQ: true, MaxOpenQ: 3},
		Policies: []Policy{{}},
		Opt:      Options{DeepEvery: 10},
		Rule: genNote + "filters of arity 0-8 (typed) and unsafe filters with drawn with/without/exclusive, fixed and per-query relation targets are queried against an independent enumeration of the model: " +
			"visited multiset, Get pointers identical to Unsafe.Get, GetRelation, Count before/during, EntityAt(i) for all i, out-of-range EntityAt; " +
			"non-trivial = >= 1 query whose expected set is non-empty, a strict subset of the alive entities and spread over >= 2 tables",
		NonTrivial: func(it *Interp, ops []Op) bool { return it.Cnt["query-nontrivial"] > 0 },
	}
	Props["C04"] = &PropDef{
		ID: "C04",
		Profile: &Profile{Name: "relations", W: with(baseWeights(), "setRel", 14, "setRelBatch", 5, "removeEntity", 12, "removeEntities", 6, "shrink", 4, "reset", 1, "query", 8, "filterNew", 5),
			MaxEnts: 30, MinOps: 10, MaxOps: 120, RelBias: 70, Caps: []int{1, 1, 2, 2, 3, 4, 8}},
		Policies: []Policy{{}},
		Opt:      Options{DeepEvery: 3},
		Rule: genNote + "relation-heavy histories (1-3 relation components per entity, shared targets, targets that are children, single and batch target removal, SetRelations(Batch), Shrink, Reset); " +
			"every relation target of every alive entity is compared with the model through Unsafe/Map/MapN/Query.GetRelation after every op; " +
			"non-trivial = >= 1 target removal that detaches >= 1 surviving child",
		NonTrivial: func(it *Interp, ops []Op) bool { return it.Cnt["target-removal-detaches-survivor"] > 0 },
	}
	Props["C05"] = &PropDef{
		ID: "C05",
		Profile: &Profile{Name: "cache", W: with(baseWeights(), "filterNew", 8, "filterReg", 12, "query", 20, "removeEntity", 10, "removeEntities", 5, "setRel", 10, "shrink", 4, "reset", 1,
			"qOpen", 6, "qNext", 8, "qClose", 3, "removeBatch", 4, "addBatch", 4, "batchCall", 4),
			MaxEnts: 30, MinOps: 10, MaxOps: 120, RelBias: 60, FixedRelBias: 60, OpenQ: true, MaxOpenQ: 4, Caps: []int{1, 1, 2, 3, 4, 8}},
		Policies: []Policy{{}},
		Opt:      Options{DeepEvery: 10},
		Rule: genNote + "filters are registered/unregistered at drawn points (also while queries are open); every query of a registered filter is repeated on a never-registered twin with the identical spec " +
			"and both are compared with the model (entities, Count, EntityAt); batch selections through cached filters are compared with the model selection; " +
			"non-trivial = a relation table matching a registered filter is emptied (freed/recycled by target death or Shrink) while registered and the filter is queried afterwards",
		NonTrivial: func(it *Interp, ops []Op) bool { return it.Cnt["query-cached-after-table-emptied"] > 0 },
	}
	Props["C06"] = &PropDef{
		ID: "C06",
		Profile: &Profile{Name: "batch", W: with(baseWeights(), "addBatch", 10, "removeBatch", 9, "exchangeBatch", 8, "setRelBatch", 8, "removeEntities", 7, "newBatch", 10, "filterNew", 7, "filterReg", 4, "query", 3, "scenario", 6),
			MaxEnts: 40, MinOps: 10, MaxOps: 100, RelBias: 30},
		Policies: []Policy{{}, {ExpandBatches: true}},
		Opt:      Options{DeepEvery: 10},
		Rule: genNote + "backend B0 executes each batch op, backend B1 its expansion into single-entity ops over the model's selection; both are compared with the model after every op; " +
			"callbacks are checked for exactly-once per selected entity, entity handle, pointer identity with Unsafe.Get and lock state; " +
			"non-trivial = >= 1 non-empty batch that spans >= 2 source tables or lands in a non-empty destination, with >= 1 alive entity not selected",
		NonTrivial: func(it *Interp, ops []Op) bool {
			return (it.Cnt["batch-multi-table"] > 0 || it.Cnt["batch-dest-nonempty"] > 0) && it.Cnt["batch-partial"] > 0
		},
	}
	Props["C07"] = &PropDef{
		ID: "C07",
		Profile: &Profile{Name: "lock", W: map[string]int{"new": 10, "newBatch": 4, "copy": 2, "add": 8, "remove": 5, "exchange": 4, "set": 5, "write": 4, "setRel": 3, "removeEntity": 5,
			"removeEntities": 4, "addBatch": 2, "removeBatch": 3, "setRelBatch": 3, "exchangeBatch": 2, "filterNew": 5, "filterReg": 2, "query": 5, "stats": 2, "emit": 2, "obsNew": 1, "obsReg": 1, "read": 2,
			"qOpen": 14, "qNext": 16, "qClose": 12, "reset": 1, "register": 4, "batchCall": 3},
			MaxEnts: 25, MinOps: 20, MaxOps: 160, OpenQ: true, MaxOpenQ: 64, Nested: true, Burst: true},
		Policies: []Policy{{}},
		Opt:      Options{DeepEvery: 10, Events: true},
		Rule: genNote + "up to 64 queries (typed/unsafe, cached/uncached) are opened, advanced, exhausted and closed in drawn orders, closed again; between steps structural ops (must panic without effect) and " +
			"permitted ops (reads, pointer writes, Set, Emit, new queries, Stats) are attempted, also from inside batch/removal callbacks; IsLocked and Stats.Locked are compared with the model after every op; " +
			"non-trivial = >= 2 queries open at once, >= 1 non-LIFO close, >= 1 rejected structural attempt and >= 1 double Close",
		NonTrivial: func(it *Interp, ops []Op) bool {
			return it.Cnt["two-queries-open"] > 0 && it.Cnt["non-lifo-close"] > 0 && it.Cnt["rejected-structural-under-lock"] > 0 && it.Cnt["double-close"] > 0
		},
	}
	obsW := with(baseWeights(), "obsNew", 10, "obsReg", 8, "emit", 8, "set", 9, "query", 2, "filterNew", 3, "shrink", 1)
	Props["C08"] = &PropDef{
		ID:       "C08",
		Profile:  &Profile{Name: "observers", W: obsW, MaxEnts: 25, MinOps: 10, MaxOps: 100, RelBias: 40, ObsPrefix: 4},
		Policies: []Policy{{}, {DropObsOdd: true}},
		Opt:      Options{DeepEvery: 20, Events: true},
		Rule: genNote + "1-8 observers (plain and Observer1-4) with drawn event type (incl. two custom types), observed/with/without/exclusive sets are registered and unregistered in drawn orders, also from inside callbacks; " +
			"per op the multiset of (observer, entity) callbacks is compared with the documented predicate evaluated per observer independently; backend B1 runs the same history with every second observer never registered; " +
			"non-trivial = >= 1 op for which some but not all registered observers of one event type fire",
		NonTrivial: func(it *Interp, ops []Op) bool { return it.Cnt["partial-fire"] > 0 },
	}
	Props["C09"] = &PropDef{
		ID:       "C09",
		Profile:  &Profile{Name: "inspect", W: with(obsW, "scenario", 6, "dumpLoad", 6, "obsNew", 12, "obsReg", 10, "addBatch", 5, "removeBatch", 5, "exchangeBatch", 4, "setRelBatch", 5, "removeEntities", 5, "newBatch", 6, "filterNew", 5), MaxEnts: 20, MinOps: 10, MaxOps: 80, RelBias: 40, ObsPrefix: 4},
		Policies: []Policy{{}},
		Opt:      Options{DeepEvery: 20, Events: true, Inspect: true},
		Rule: genNote + "as C08, and every observer callback inspects the world: reported entity alive and affected, every entity of the expected state appears exactly once in a Filter0 query, " +
			"components/values/targets of the reported entity and (for batches) of all selected entities equal the model's pre-state (removal events) or post-state (all others), IsLocked as documented; " +
			"non-trivial = >= 1 removal or batch callback inspected on a world with >= 2 tables",
		NonTrivial: func(it *Interp, ops []Op) bool { return it.Cnt["inspected-removal-or-batch"] > 0 },
	}
	Props["C10"] = &PropDef{
		ID: "C10",
		Profile: &Profile{Name: "misuse", W: with(baseWeights(), "misuse", 40, "read", 10, "removeEntity", 12, "new", 16, "obsNew", 2, "obsReg", 2, "emit", 2, "shrink", 1),
			MaxEnts: 20, MinOps: 10, MaxOps: 100, Misuse: true, RelBias: 30, Caps: []int{1, 2, 3, 4, 8}},
		Policies: []Policy{{}},
		Opt:      Options{DeepEvery: 1},
		Rule: genNote + "in a drawn world state, calls that violate exactly one documented precondition (stale handle: dead / dead with the ID alive again / zero entity, in every checked entity-taking call of World, Unsafe, Map, MapN, ExchangeN, Emit; " +
			"duplicate add, remove missing, empty component list, omitted target, dead target) must panic and the full model comparison, Stats and lock state must be unchanged; " +
			"non-trivial = >= 1 stale-handle call whose ID is alive again under a newer generation, on a world with >= 2 alive entities",
		NonTrivial: func(it *Interp, ops []Op) bool {
			return it.Cnt["misuse-stale-dead-id-reused"] > 0 && it.M.NumAlive() >= 2
		},
	}
	Props["C11"] = &PropDef{
		ID: "C11",
		Profile: &Profile{Name: "memory", W: with(baseWeights(), "gc", 6, "newBatch", 8, "removeEntities", 6, "removeBatch", 6, "addBatch", 6, "exchangeBatch", 4, "removeEntity", 10, "remove", 12, "shrink", 4, "reset", 2, "copy", 4, "filterNew", 5),
			MaxEnts: 200, MinOps: 10, MaxOps: 120, BigBatches: true, Caps: []int{1, 2, 4, 16, 64, 128}},
		Policies: []Policy{{}},
		Opt:      Options{DeepEvery: 4},
		Rule: genNote + "payloads are always non-zero; pointer-bearing components (pointer, slice, string, map, relation with pointer) carry checksummed pointees; heavy remove/move/batch/reset/shrink, tables around the 64-row threshold, " +
			"forced GCs at drawn points and GOGC=1 for the whole process; after every op every component never written since it was added must be all-zero bytes (also checked inside init callbacks), and every pointee must still carry its checksum; " +
			"non-trivial = >= 1 uninitialised add/create lands in a table layout that earlier lost a row holding non-zero data",
		NonTrivial: func(it *Interp, ops []Op) bool { return it.Cnt["uninit-add-into-vacated-table"] > 0 },
	}
	mixed := with(obsW, "obsNew", 3, "obsReg", 3, "filterNew", 6, "filterReg", 5, "query", 12, "stats", 4, "shrink", 3, "reset", 1, "setRel", 8, "removeEntity", 9, "removeEntities", 5, "newBatch", 8, "dumpLoad", 1)
	Props["C12"] = &PropDef{
		ID: "C12",
		Profile: &Profile{Name: "mixed", W: with(mixed, "qOpen", 2, "qNext", 3, "qClose", 3, "register", 2, "misuse", 2, "batchCall", 1, "dump", 1, "loadSaved", 1, "emit", 1, "res", 1, "scenario", 2),
			MaxEnts: 40, MinOps: 20, MaxOps: 120, RelBias: 60, Caps: []int{1, 1, 2, 3, 4, 8, 16}, Bulk: 20, OpenQ: true, MaxOpenQ: 3, Misuse: true},
		Policies: []Policy{{}, {}},
		Opt:      Options{DeepEvery: 10},
		Rule: genNote + "every op list (all op kinds incl. relation-table recycling, cached filters, observers, Shrink, Reset) is executed twice in one process and once in each of 3 long-lived child processes (separate map hash seeds); " +
			"the traces - every returned handle, batch callback order, the visit order of every query, Stats field by field incl. per-table figures - must be identical; " +
			"non-trivial = >= 20 ops with >= 1 relation table emptied (freed/recycled) and >= 1 query of a registered filter",
		NonTrivial: func(it *Interp, ops []Op) bool {
			return len(ops) >= 20 && it.Cnt["relation-table-emptied"] > 0 && it.Cnt["query-cached"] > 0
		},
	}
	Props["C20"] = &PropDef{
		ID: "C20",
		Profile: &Profile{Name: "builds", W: with(mixed, "probe", 18, "misuse", 10, "read", 4, "dumpLoad", 0, "qOpen", 3, "qNext", 4, "qClose", 4, "register", 2, "batchCall", 1, "emit", 1, "res", 1, "scenario", 2), MaxEnts: 30, MinOps: 20, MaxOps: 100, RelBias: 40, MaxFill: 48, Misuse: true,
			Caps: []int{1, 2, 3, 4, 8, 16}, OpenQ: true, MaxOpenQ: 3},
		Policies: []Policy{{}},
		Opt:      Options{DeepEvery: 10},
		Rule: genNote + "histories restricted to 64 component types (0-48 filler types) with probes the model does not predict (query access before the first Next, after exhaustion and after Close; Get/Set/GetRelation/Has of missing components, " +
			"including dereferencing returned pointers) and precondition violations; each op list is executed in-process (default build) and by four child binaries built with tags {}, {ark_tiny}, {ark_debug}, {ark_tiny, ark_debug}; " +
			"traces (handles, query orders, Stats, panic yes/no per probe, full state dump after every probe) must be identical, panic messages are not compared; " +
			"non-trivial = >= 20 ops with probes of >= 2 different kinds",
		NonTrivial: func(it *Interp, ops []Op) bool {
			kinds := map[string]bool{}
			for i := range ops {
				if ops[i].K == "probe" {
					kinds[ops[i].Sub] = true
				}
			}
			return len(ops) >= 20 && len(kinds) >= 2
		},
	}
	Props["C14"] = &PropDef{
		ID:       "C14",
		Profile:  &Profile{Name: "typed", W: with(obsW, "obsNew", 4, "obsReg", 4, "query", 10, "filterNew", 6, "addBatch", 4, "removeBatch", 4, "exchangeBatch", 4, "setRelBatch", 4, "newBatch", 6, "scenario", 8, "batchCall", 3, "qOpen", 4, "qNext", 5, "qClose", 5, "reset", 1, "filterReg", 5), MaxEnts: 40, MinOps: 10, MaxOps: 100, RelBias: 30, ObsPrefix: 2, OpenQ: true, MaxOpenQ: 3},
		Policies: []Policy{{}, {ForceUnsafe: true}},
		Opt:      Options{DeepEvery: 4, Events: true},
		Rule: genNote + "backend B0 executes every op through the drawn typed variant (Map, Map1-12, Exchange1-8, Observer1-4; Filter0-8/Query0-8 on both), backend B1 the same op through the ID-based API with the same component list; " +
			"both are compared with the model after every op; pointers from callbacks/Get/Query.Get are checked to be in type-parameter order and identical to Unsafe.Get; " +
			"non-trivial = >= 1 successful op through a type of arity >= 2 that passes a relation target by parameter index",
		NonTrivial: func(it *Interp, ops []Op) bool {
			for i := range ops {
				o := &ops[i]
				if (o.P == PMap && o.M >= 32 || o.P == PEx && ExInsts[o.M].Arity >= 2) && len(o.Rels) > 0 {
					for _, r := range o.Rels {
						if r.S == 0 {
							return true
						}
					}
				}
			}
			return false
		},
	}
	Props["C15"] = &PropDef{
		ID: "C15",
		Profile: &Profile{Name: "shrink", W: with(baseWeights(), "reset", 2, "shrink", 12, "setRel", 10, "removeEntity", 10, "removeEntities", 4, "query", 10, "filterNew", 5, "filterReg", 5, "removeBatch", 4),
			MaxEnts: 40, MinOps: 10, MaxOps: 120, RelBias: 60, Caps: []int{1, 1, 2, 3, 4, 8, 16}},
		Policies: []Policy{{}, {SkipShrink: true}},
		Opt:      Options{DeepEvery: 3, ShrinkCaps: true},
		Rule: genNote + "histories with Shrink() / for Shrink(0) / for Shrink(1ns) / single Shrink(0) at drawn positions; backend B0 executes them, B1 skips them, both must equal the model after the Shrink and after every later op " +
			"(entities, values, targets, queries incl. cached filters, batch selections); after an unbounded Shrink capacities are checked through Stats (size <= cap <= max(initial, pow2ceil(size)), free tables at initial capacity, no empty active relation table) and Shrink() must return false; " +
			"non-trivial = >= 1 Shrink while an emptied relation table has an alive target, followed by >= 3 more ops",
		NonTrivial: func(it *Interp, ops []Op) bool {
			return it.Cnt["shrink-with-empty-relation-table-of-alive-target"] > 0 && len(ops)-it.shrinkAt >= 3
		},
	}
	Props["C16"] = &PropDef{
		ID: "C16",
		Profile: &Profile{Name: "reset", W: with(obsW, "reset", 4, "obsNew", 6, "obsReg", 6, "filterNew", 5, "filterReg", 6, "res", 4, "query", 5, "setRel", 6, "removeEntity", 8, "qOpen", 2, "qNext", 2, "qClose", 2),
			MaxEnts: 25, MinOps: 20, MaxOps: 120, RelBias: 50, OpenQ: true, MaxOpenQ: 3, Caps: []int{1, 2, 3, 4, 8}, ObsPrefix: 3, ForceReset: true},
		Policies: []Policy{{}, {FreshOnReset: true}},
		Opt:      Options{DeepEvery: 5, Events: true},
		Rule: genNote + "rich pre-history (observers of every event type, registered filters, resources, relation tables, recycled entities, opened-and-closed queries), Reset, post-history; right after Reset Stats must show no entities/filters/observers/lock and no resource may be present; " +
			"backend B0 is reset, backend B1 is replaced by a new world with the same registration order: both must equal the model after every later op and no pre-reset observer may fire; filters and observers are registered again; " +
			"non-trivial = a Reset of a non-empty world with >= 1 registered OnRemoveRelations observer and >= 1 registered filter, followed by >= 5 ops",
		NonTrivial: func(it *Interp, ops []Op) bool {
			last := -1
			for i := range ops {
				if ops[i].K == "reset" {
					last = i
				}
			}
			return it.Cnt["reset-with-highest-event-observer"] > 0 && it.Cnt["reset-with-registered-filter"] > 0 && it.Cnt["reset-nonempty-world"] > 0 && last >= 0 && len(ops)-last >= 5
		},
	}
	Props["C17"] = &PropDef{
		ID: "C17",
		Profile: &Profile{Name: "dump", W: map[string]int{"new": 20, "newBatch": 10, "copy": 5, "removeEntity": 24, "removeEntities": 8, "filterNew": 3, "add": 4, "reset": 1, "dumpLoad": 1, "dump": 3, "loadSaved": 3, "shrink": 1},
			MaxEnts: 30, MinOps: 5, MaxOps: 120, Caps: []int{1, 1, 2, 3, 4, 8, 0}, FinalOp: "roundtrip"},
		Policies: []Policy{{}, {}},
		Opt:      Options{DeepEvery: 10},
		Rule: genNote + "a creation/removal-heavy history (any free-list shape) is executed on two worlds; then world 0 is dumped and loaded into a fresh world, world 1 is dumped, reset and reloaded; " +
			"Alive of every handle ever issued, Stats and a full query must agree in all three worlds, loaded entities have no components, loading into a used world must panic, the dump must not alias the pool, " +
			"and 1-24 drawn creations/removals applied in lock-step must return identical handles in all three; non-trivial = the free list holds >= 2 IDs in non-ascending order at dump time",
		NonTrivial: func(it *Interp, ops []Op) bool { return it.Cnt["free-list-not-ascending"] > 0 },
	}
	Props["C19"] = &PropDef{
		ID: "C19",
		Profile: &Profile{Name: "stats", W: with(obsW, "stats", 14, "obsNew", 3, "obsReg", 3, "shrink", 4, "setRel", 8, "removeEntity", 9, "filterReg", 4, "reset", 1, "qOpen", 2, "qNext", 2, "qClose", 2),
			MaxEnts: 30, MinOps: 10, MaxOps: 120, RelBias: 50, OpenQ: true, MaxOpenQ: 3, Caps: []int{1, 1, 2, 3, 4, 8, 16}},
		Policies: []Policy{{}, {SkipStats: true}},
		Opt:      Options{DeepEvery: 10},
		Rule: genNote + "Stats is called at drawn points on backend B0 and only once at the end on B1; every returned object is checked for internal consistency (Used = sum of archetype = sum of table sizes = alive, Total = Used+Recycled <= Capacity, " +
			"size <= cap, memory products and sums, no duplicate archetypes) and against the model (per component-set sizes, CachedFilters, Observers, Locked); the final Stats of B0 and B1 must be deeply equal; " +
			"non-trivial = >= 2 Stats calls with a relation table emptied between two of them",
		NonTrivial: func(it *Interp, ops []Op) bool { return it.Cnt["stats-after-table-emptied"] > 0 },
		Extra: func(it *Interp, ops []Op) {
			if len(it.B) < 2 {
				return
			}
			a, b := it.B[0].W.Stats(), it.B[1].W.Stats()
			if !reflect.DeepEqual(a.Entities, b.Entities) || a.MemoryUsed != b.MemoryUsed || a.Memory != b.Memory || len(a.Archetypes) != len(b.Archetypes) ||
				a.CachedFilters != b.CachedFilters || a.Observers != b.Observers || a.Locked != b.Locked {
				fail("stats|final|incremental-differs", "incrementally updated Stats differ from Stats computed once:\n%+v\n%+v", a, b)
			}
			for i := range a.Archetypes {
				x, y := a.Archetypes[i], b.Archetypes[i]
				x.ComponentTypes, y.ComponentTypes = nil, nil
				if !reflect.DeepEqual(x, y) {
					fail("stats|final|incremental-differs", "archetype %d: incrementally updated Stats differ from Stats computed once:\n%s\n%s", i, fmt.Sprintf("%+v", x), fmt.Sprintf("%+v", y))
				}
			}
		},
	}
	applyDefaults()
}
