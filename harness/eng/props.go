package eng

// weights common to world-building profiles
func baseWeights() map[string]int {
	return map[string]int{
		"new": 14, "newBatch": 5, "copy": 3, "add": 12, "remove": 9, "exchange": 8, "set": 5, "write": 5,
		"setRel": 6, "removeEntity": 7,
		"addBatch": 3, "removeBatch": 3, "exchangeBatch": 2, "setRelBatch": 2, "removeEntities": 3,
		"filterNew": 4, "filterReg": 2, "query": 6, "shrink": 2, "reset": 0, "stats": 1, "read": 2,
	}
}

func with(w map[string]int, kv ...any) map[string]int {
	out := map[string]int{}
	for k, v := range w {
		out[k] = v
	}
	for i := 0; i+1 < len(kv); i += 2 {
		out[kv[i].(string)] = kv[i+1].(int)
	}
	return out
}

// Props is the table of engine-based property checks.
var Props = map[string]*PropDef{}

func init() {
	Props["C01"] = &PropDef{
		ID:       "C01",
		Profile:  &Profile{Name: "store", W: with(baseWeights(), "reset", 1), MaxEnts: 40, MinOps: 10, MaxOps: 120},
		Policies: []Policy{{}},
		Opt:      Options{DeepEvery: 5},
		Rule: "rapid state-machine histories of create/add/remove/exchange/set/copy/remove-entity/batch/relation/shrink/reset ops over 16 component types, " +
			"each through a drawn API path (Map[T], Map1-12, Exchange1-8, ID-based); non-trivial = >= 8 ops of which >= 1 moves or removes an entity " +
			"out of a table holding >= 2 entities; distinct = distinct op list + world configuration (FNV-64 of the JSON)",
		NonTrivial: func(it *Interp, ops []Op) bool {
			return len(ops) >= 8 && it.Cnt["move-from-shared-table"] > 0
		},
	}
}
