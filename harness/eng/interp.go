package eng

import (
	"fmt"
	"runtime"
	"runtime/debug"
	"sort"
	"strings"
	"time"

	"arkverif/comps"

	"github.com/mlange-42/ark/ecs"
)

// Options arm oracles.
type Options struct {
	DeepEvery   int  // typed-mapper comparison and full scans every n-th op (0 = never, 1 = always)
	Events      bool // compare observer callbacks with the model's prediction (C08)
	Inspect     bool // inspect the world from inside callbacks (C09)
	StatsChecks bool // check Stats consistency whenever Stats is called (C19)
	ShrinkCaps  bool // check capacities after unbounded Shrink (C15)
	Known       func(sig string) bool
}

// Counters are per-case class counters (merged into the evidence).
type Counters map[string]int

// Interp applies operations to the model and all backends and runs the oracles.
type Interp struct {
	M    *Model
	B    []*Backend
	Opt  Options
	Cnt  Counters
	Step int

	// state of the operation being executed
	cur          *Op
	pre          []Ent // entity state before the operation
	evAt         []Ent // entity state at event time (after the structural change)
	sel          map[int]bool
	batch        bool
	emis         []Emission
	free         map[int]bool // observers unconstrained in this operation
	cbLocked     bool
	Excluded     int
	ExcludedSigs map[string]int
	done         bool // the worlds were consumed by a final operation; skip the end-of-case checks
	nestedDone   map[string]int
	keepSel      []int            // selection of the query a batch callback opens and keeps (qOpenKeep)
	everRel      map[string][]int // relation layouts populated at some point: layout -> targets
	shrinkAt     int
	saved        *savedDump      // entity dump kept for a later load
	epoch        int             // incremented whenever entity serials are renumbered (Reset, load of a saved dump)
	vacated      map[string]bool // layouts that lost a row holding non-zero data
	uninit       bool            // the current op adds components without initialising them
	regAt        []bool          // observers registered at the start of the operation
}

// NewInterp creates an interpreter with one backend per policy.
func NewInterp(cfg Config, pols []Policy, opt Options) *Interp {
	it := &Interp{M: NewModel(), Opt: opt, Cnt: Counters{}, ExcludedSigs: map[string]int{}}
	for i, p := range pols {
		it.B = append(it.B, NewBackend(fmt.Sprintf("B%d", i), cfg, p))
	}
	return it
}

func (it *Interp) locked() bool { return it.M.OpenQ > 0 || it.cbLocked }

func (it *Interp) count(class string) { it.Cnt[class]++ }

func (it *Interp) countN(class string, n int) { it.Cnt[class] += n }

// relsValid checks relation arguments for an operation adding components `added` (mask) to something.
// Every relation component in added needs exactly one target; every target must be zero or alive.
func (it *Interp) relsValid(added uint16, rels []RelSpec) bool {
	var given uint16
	for _, r := range rels {
		if r.C < 0 || r.C >= comps.N || !comps.All[r.C].Relation {
			return false
		}
		if given&(1<<uint(r.C)) != 0 {
			return false
		}
		given |= 1 << uint(r.C)
		if !it.M.targetOK(r.T) {
			return false
		}
	}
	return given == added&comps.RelMask
}

func distinct(l []int) bool {
	var m uint16
	for _, c := range l {
		if m&(1<<uint(c)) != 0 {
			return false
		}
		m |= 1 << uint(c)
	}
	return true
}

func (it *Interp) alive(s int) bool {
	return s >= 0 && s < len(it.M.Ents) && it.M.Ents[s].Alive
}

// begin prepares per-op state.
func (it *Interp) begin(op *Op) {
	it.cur = op
	it.pre = it.M.CloneEnts()
	it.uninit = (op.Init == InitNilFn || op.P == PUnsafe && op.Vals == nil || op.P == PWorld) && (op.K == "new" || op.K == "newBatch" || op.K == "add" || op.K == "exchange" || op.K == "addBatch" || op.K == "exchangeBatch")
	it.evAt = nil
	it.sel = nil
	it.batch = false
	it.emis = it.emis[:0]
	it.free = map[int]bool{}
	it.regAt = it.regAt[:0]
	for _, o := range it.M.Obs {
		it.regAt = append(it.regAt, o.Registered)
	}
	for _, b := range it.B {
		b.rec = b.rec[:0]
		b.pend = nil
	}
}

func (it *Interp) emit(e Emission) { it.emis = append(it.emis, e) }

// run executes f on every backend, demanding a panic iff !valid.
func (it *Interp) run(op *Op, valid bool, f func(b *Backend)) {
	for _, b := range it.B {
		p := try(func() { f(b) })
		if valid && p != nil {
			fail("panic|"+op.K+"|valid-call", "%s step %d: valid operation %v panicked: %v", b.Name, it.Step, op, p)
		}
		if !valid && p == nil {
			fail("reject|"+op.K+"|no-panic", "%s step %d: invalid operation %v did not panic", b.Name, it.Step, op)
		}
	}
	if !valid {
		it.count("rejected-" + op.K)
		if it.locked() {
			it.count("rejected-structural-under-lock")
		}
		if op.Sub != "" {
			it.count("misuse-" + op.Sub)
			if op.Sub == "stale" {
				it.count("misuse-stale-" + it.staleClass(op.E))
			}
		}
	}
}

// Apply executes one operation.
func (it *Interp) Apply(op *Op) {
	it.Step++
	it.ensureReg(op)
	it.begin(op)
	switch op.K {
	case "new":
		it.opNew(op)
	case "newBatch":
		it.opNewBatch(op)
	case "copy":
		it.opCopy(op)
	case "add", "remove", "exchange":
		it.opExchange(op)
	case "set":
		it.opSet(op)
	case "write":
		it.opWrite(op)
	case "setRel":
		it.opSetRel(op)
	case "removeEntity":
		it.opRemoveEntity(op)
	case "bulk":
		it.opBulk(op)
	case "obsBad":
		it.opObsBad(op)
	case "regLocked":
		it.opRegLocked(op)
	case "bulkObs":
		it.opBulkObs(op)
	case "addBatch", "removeBatch", "exchangeBatch":
		it.opExchangeBatch(op)
	case "setRelBatch":
		it.opSetRelBatch(op)
	case "removeEntities":
		it.opRemoveEntities(op)
	case "filterNew":
		it.opFilterNew(op)
	case "filterReg":
		it.opFilterReg(op)
	case "query":
		it.opQuery(op)
	case "shrink":
		it.opShrink(op)
	case "reset":
		it.opReset(op)
	case "stats":
		it.opStats(op)
	case "obsNew":
		it.opObsNew(op)
	case "obsReg":
		it.opObsReg(op)
	case "emit":
		it.opEmit(op)
	case "qOpen", "qNext", "qClose":
		it.opOpenQuery(op)
	case "gc":
		it.opGC(op)
	case "res":
		it.opResource(op)
	case "read":
		it.opRead(op)
	case "dumpLoad":
		it.opDumpLoad(op)
	case "roundtrip":
		it.opRoundtrip(op)
		return
	case "probe":
		it.opProbe(op)
	case "queryDeadTarget":
		it.opQueryDeadTarget(op)
	case "register":
		it.opRegister(op)
	case "batchCall":
		// Filter.Batch(rel...) is called and the Batch discarded (a filter used for batches earlier and for queries later)
		f := it.M.Filters[op.F]
		it.run(op, true, func(b *Backend) { _ = b.flt[op.F].Batch(b.rels(f.List(), op.QRels)) })
	case "dump":
		it.opDump(op)
	case "loadSaved":
		it.opLoadSaved(op)
	default:
		panic("unknown op kind " + op.K)
	}
	it.finish(op)
}

// finish compares events and world state after the operation.
func (it *Interp) finish(op *Op) {
	if it.Opt.Events {
		it.checkEvents(op)
	}
	it.classifyStep()
	deep := it.Opt.DeepEvery > 0 && it.Step%it.Opt.DeepEvery == 0
	for _, b := range it.B {
		b.CheckWorld(it.M, "state|"+op.K, fmt.Sprintf("step %d after %s", it.Step, op.K), deep)
	}
}

// checkEvents compares recorded callbacks with the prediction.
func (it *Interp) checkEvents(op *Op) {
	want := map[Rec]int{}
	for j, o := range it.M.Obs {
		if j >= len(it.regAt) || !it.regAt[j] {
			continue
		}
		if it.free[j] {
			continue
		}
		for i := range it.emis {
			if o.Fires(&it.emis[i]) {
				want[Rec{j, it.emis[i].Ent}]++
			}
		}
	}
	// class: some but not all observers of one event type fire
	perEv := map[int][2]int{}
	for j, o := range it.M.Obs {
		if j >= len(it.regAt) || !it.regAt[j] {
			continue
		}
		fired := false
		for r := range want {
			if r.Obs == j {
				fired = true
			}
		}
		c := perEv[o.Ev]
		if fired {
			c[0]++
		} else {
			c[1]++
		}
		perEv[o.Ev] = c
	}
	for ev, c := range perEv {
		if c[0] > 0 && c[1] > 0 {
			for i := range it.emis {
				if it.emis[i].Ev == ev {
					it.count("partial-fire")
					break
				}
			}
		}
	}
	if len(want) > 0 {
		it.count("op-with-callbacks")
	}
	for _, b := range it.B {
		skip := func(j int) bool {
			if it.free[j] {
				return true
			}
			if b.Pol.DropObsOdd {
				if j%2 == 1 {
					return true
				}
				if j < len(b.obsOn) && j < len(it.regAt) && b.obsOn[j] != it.M.Obs[j].Registered {
					return true // registration state diverged through an in-callback unregistration
				}
			}
			return false
		}
		got := map[Rec]int{}
		for _, r := range b.rec {
			if skip(r.Obs) {
				continue
			}
			got[r]++
		}
		for r, n := range want {
			if skip(r.Obs) {
				continue
			}
			if got[r] != n {
				o := it.M.Obs[r.Obs]
				fail("events|"+op.K+"|"+evNames[o.Ev]+"|missing", "%s step %d %v: observer %d %s fired %d times for #%d, model %d (pre %s)", b.Name, it.Step, op, r.Obs, obsStr(o), got[r], r.Ent, n, it.preMask(r.Ent))
			}
		}
		for r, n := range got {
			if want[r] != n {
				o := it.M.Obs[r.Obs]
				fail("events|"+op.K+"|"+evNames[o.Ev]+"|extra", "%s step %d %v: observer %d %s fired %d times for #%d, model %d (pre %s)", b.Name, it.Step, op, r.Obs, obsStr(o), n, r.Ent, want[r], it.preMask(r.Ent))
			}
		}
	}
}

func (it *Interp) preMask(s int) string {
	if s >= 0 && s < len(it.pre) {
		return names(it.pre[s].Mask)
	}
	return "-"
}

func obsStr(o *ObsSpec) string {
	s := evNames[o.Ev] + " for" + names(o.C()) + " with" + names(maskOf(o.With))
	if o.Exclusive {
		s += " exclusive"
	} else {
		s += " without" + names(maskOf(o.Without))
	}
	return s
}

// ---------------------------------------------------------------------------------------------
// creation

func valsAt(vals []int64, k int) []int64 {
	if vals == nil {
		return nil
	}
	out := make([]int64, len(vals))
	for i, v := range vals {
		out[i] = v + int64(k)<<20
	}
	return out
}

func (it *Interp) opNew(op *Op) {
	list := op.Comps
	if op.P == PMap {
		list = MapInsts[op.M].Comps
	}
	valid := !it.locked() && distinct(list) && it.relsValid(maskOf(list), op.Rels)
	if op.P == PWorld && len(list) > 0 {
		panic("bad op: World.NewEntity has no components")
	}
	var s int
	evVals := op.Vals
	if op.P == PUnsafe || op.Init == InitNilFn {
		evVals = nil
	}
	if valid {
		s = it.M.Create(list, evVals, op.Rels)
		it.evAt = it.M.Ents
		it.emit(Emission{Ev: EvCreate, Ent: s, New: maskOf(list), Kind: 0})
		if len(op.Rels) > 0 {
			it.emit(Emission{Ev: EvAddRels, Ent: s, New: maskOf(list), Kind: 0})
		}
		it.sel = map[int]bool{s: true}
	}
	it.run(op, valid, func(b *Backend) {
		if valid {
			b.pend = []int{s}
		}
		h := it.execNew(b, op, list)
		if valid {
			b.bind(s, h)
			b.pend = nil
			b.tr("new %v", h)
		}
	})
	if valid && op.P == PUnsafe && op.Vals != nil {
		it.lateWrite(s, list, op.Vals)
	}
}

// execNew performs the raw creation call.
func (it *Interp) execNew(b *Backend, op *Op, list []int) ecs.Entity {
	switch {
	case op.P == PWorld:
		return b.W.NewEntity()
	case op.P == PUnsafe || b.Pol.ForceUnsafe:
		var h ecs.Entity
		if len(op.Rels) == 0 && op.Mode == 0 {
			h = b.U.NewEntity(b.ids(list)...)
		} else {
			h = b.U.NewEntityRel(b.ids(list), b.urels(op.Rels)...)
		}
		if op.P != PUnsafe && op.Vals != nil && op.Init != InitNilFn {
			for i, c := range list {
				comps.SetV(c, b.U.Get(h, b.IDs[c]), op.Vals[i])
			}
		}
		return h
	default:
		mp := b.Mapper(op.M)
		ra := b.rels(list, op.Rels)
		switch op.Init {
		case InitVal:
			if op.Mode == 7 && len(list) == 1 && len(op.Rels) == 0 && op.E >= 0 && op.E < len(b.H) && b.W.Alive(b.H[op.E]) && b.U.Has(b.H[op.E], b.IDs[list[0]]) {
				// aliased source: the value is read from the world's own memory, which the call may re-allocate
				it.count("new-entity-from-a-pointer-into-the-world")
				return comps.NewFrom(b.W, list[0], b.H[op.E], op.M < comps.N, 0)
			}
			return mp.NewEntity(op.Vals, ra)
		case InitFn:
			calls := 0
			h := mp.NewEntityFn(func(p Ptrs) {
				calls++
				it.initPtrs(b, list, p, op.Vals, ecs.Entity{}, false)
			}, ra)
			if calls != 1 {
				fail("callback|new|count", "%s: NewEntityFn callback ran %d times", b.Name, calls)
			}
			return h
		default:
			return mp.NewEntityFn(nil, ra)
		}
	}
}

// initPtrs is the body of an initialisation callback: checks the pointers and writes the payloads.
func (it *Interp) initPtrs(b *Backend, list []int, p Ptrs, vals []int64, h ecs.Entity, known bool) {
	if len(p) != len(list) {
		fail("callback|args|len", "%s: callback got %d pointers for %d components", b.Name, len(p), len(list))
	}
	for i, c := range list {
		if p[i] == nil {
			fail("callback|args|nil", "%s: callback pointer %d (%s) is nil", b.Name, i, comps.All[c].Name)
		}
		if known {
			if q := b.U.Get(h, b.IDs[c]); q != p[i] {
				fail("callback|"+it.cur.K+"|wrong-pointer", "%s step %d %v: callback pointer %d is not component %s of entity %v", b.Name, it.Step, it.cur, i, comps.All[c].Name, h)
			}
		}
		if !comps.IsZeroBytes(c, p[i]) {
			fail("memory|"+it.cur.K+"|callback-nonzero", "%s step %d %v: new component %s is not zero before initialisation (holds %d)", b.Name, it.Step, it.cur, comps.All[c].Name, comps.GetV(c, p[i]))
		}
		comps.SetV(c, p[i], vals[i])
	}
}

// lateWrite writes payloads through Unsafe.Get after the structural call (ID-based path).
func (it *Interp) lateWrite(s int, list []int, vals []int64) {
	e := &it.M.Ents[s]
	for i, c := range list {
		e.Val[c] = comps.All[c].Norm(vals[i])
	}
	for _, b := range it.B {
		h := b.H[s]
		for i, c := range list {
			comps.SetV(c, b.U.Get(h, b.IDs[c]), vals[i])
		}
	}
}

func (it *Interp) opNewBatch(op *Op) {
	var list []int
	if op.P == PMap {
		list = MapInsts[op.M].Comps
	}
	valid := !it.locked() && op.N >= 0 && it.relsValid(maskOf(list), op.Rels)
	var first int
	if valid && op.N >= 63 {
		it.count("batch-of-63-or-more-entities")
	}
	if valid {
		first = len(it.M.Ents)
		it.sel = map[int]bool{}
		for k := 0; k < op.N; k++ {
			var v []int64
			switch {
			case op.P == PWorld || op.Init == InitNilFn:
			case op.Init == InitVal:
				v = op.Vals
			default:
				v = valsAt(op.Vals, first+k)
			}
			s := it.M.Create(list, v, op.Rels)
			it.sel[s] = true
			it.emit(Emission{Ev: EvCreate, Ent: s, New: maskOf(list), Kind: 0})
			if len(op.Rels) > 0 {
				it.emit(Emission{Ev: EvAddRels, Ent: s, New: maskOf(list), Kind: 0})
			}
		}
		it.evAt = it.M.Ents
		it.batch = true
	}
	// a query that the batch callback opens and leaves open beyond the end of the operation
	var keep *Op
	var keepSel []int
	if valid && op.N > 0 {
		for i := range op.Acts {
			if op.Acts[i].K == "qOpenKeep" {
				keep = &op.Acts[i]
			}
		}
	}
	if keep != nil {
		if it.M.OpenQ >= 62 {
			panic("bad op: qOpenKeep without free lock bits")
		}
		keepSel = it.M.Select(it.M.Filters[keep.F], nil)
		it.keepSel = keepSel
	}
	it.run(op, valid, func(b *Backend) {
		if !valid {
			it.execNewBatch(b, op, list, first)
			return
		}
		b.pend = nil
		for k := 0; k < op.N; k++ {
			b.pend = append(b.pend, first+k)
		}
		it.execNewBatch(b, op, list, first)
		if keep != nil && b.openQ[keep.Q] == nil {
			// this backend ran the batch without a batch callback (policy ExpandBatches): open the query now
			it.openKept(b, keep, keepSel)
		}
		if len(b.pend) > 0 {
			// discover the handles by scanning the world
			q := b.all.Query()
			for q.Next() {
				b.serial(q.Entity())
			}
		}
		if len(b.pend) > 0 {
			fail("batch|newBatch|missing", "%s step %d %v: %d of %d new entities not found in the world", b.Name, it.Step, op, len(b.pend), op.N)
		}
		if b.Trace != nil {
			var l []int
			for k := 0; k < op.N; k++ {
				l = append(l, first+k)
			}
			b.tr("newBatch %v", b.handlesOf(l))
		}
	})
	if keep != nil {
		if it.M.Open == nil {
			it.M.Open = map[int]*mOpenQuery{}
		}
		it.M.Open[keep.Q] = &mOpenQuery{filter: keep.F, remaining: len(keepSel), total: len(keepSel)}
		it.M.OpenQ++
		it.M.Filters[keep.F].Queried = true
		it.count("query-opened-in-batch-callback-and-kept-open")
	}
}

// openKept opens the query of a qOpenKeep act on backend b (from inside the batch callback).
func (it *Interp) openKept(b *Backend, a *Op, sel []int) {
	q := b.openQueryOn(it.M, a.F, nil)
	exp := map[int]bool{}
	for _, s := range sel {
		exp[s] = true
	}
	b.openQ[a.Q] = &openQuery{q: q, expected: exp, filter: a.F}
	if c := q.Count(); c != len(sel) {
		fail("query|open|count", "%s step %d: query %d opened inside a batch callback counts %d, model %d", b.Name, it.Step, a.Q, c, len(sel))
	}
}

func (it *Interp) execNewBatch(b *Backend, op *Op, list []int, first int) {
	if b.Pol.ExpandBatches && op.N > 0 { // (a batch of zero entities has no per-entity expansion)
		for k := 0; k < op.N; k++ {
			var h ecs.Entity
			if op.P == PWorld {
				h = b.W.NewEntity()
			} else {
				mp := b.Mapper(op.M)
				ra := b.rels(list, op.Rels)
				switch op.Init {
				case InitVal:
					h = mp.NewEntity(op.Vals, ra)
				case InitFn:
					v := valsAt(op.Vals, first+k)
					h = mp.NewEntityFn(func(p Ptrs) { it.initPtrs(b, list, p, v, ecs.Entity{}, false) }, ra)
				default:
					h = mp.NewEntityFn(nil, ra)
				}
			}
			b.serial(h)
		}
		return
	}
	calls := 0
	if op.P == PWorld {
		if op.Fn {
			b.W.NewEntities(op.N, func(e ecs.Entity) {
				calls++
				it.inBatchCallback(b, e)
			})
			if calls != op.N {
				fail("callback|newBatch|count", "%s: NewEntities callback ran %d times for %d entities", b.Name, calls, op.N)
			}
		} else {
			b.W.NewEntities(op.N, nil)
		}
		return
	}
	mp := b.Mapper(op.M)
	ra := b.rels(list, op.Rels)
	switch op.Init {
	case InitVal:
		mp.NewBatch(op.N, op.Vals, ra)
	case InitFn:
		mp.NewBatchFn(op.N, func(e ecs.Entity, p Ptrs) {
			calls++
			s := it.inBatchCallback(b, e)
			it.initPtrs(b, list, p, valsAt(op.Vals, s), e, true)
		}, ra)
		if calls != op.N {
			fail("callback|newBatch|count", "%s: NewBatchFn callback ran %d times for %d entities", b.Name, calls, op.N)
		}
	default:
		mp.NewBatchFn(op.N, nil, ra)
	}
}

// inBatchCallback performs the checks common to all batch callbacks; returns the entity's serial.
func (it *Interp) inBatchCallback(b *Backend, e ecs.Entity) int {
	s := b.serial(e)
	if s < 0 || !it.sel[s] {
		fail("callback|"+it.cur.K+"|wrong-entity", "%s step %d %v: callback for entity %v (#%d) which is not selected", b.Name, it.Step, it.cur, e, s)
	}
	if !b.W.IsLocked() {
		fail("lock|"+it.cur.K+"|callback-unlocked", "%s step %d %v: world not locked inside batch callback", b.Name, it.Step, it.cur)
	}
	if !b.W.Alive(e) {
		fail("callback|"+it.cur.K+"|dead-entity", "%s step %d %v: callback entity %v is not alive", b.Name, it.Step, it.cur, e)
	}
	it.nested(b)
	it.sameObjectAttempt(b)
	if it.nestedDone == nil {
		it.nestedDone = map[string]int{}
	}
	if it.M.OpenQ < 60 && it.nestedDone[b.Name+"/dump"] != it.Step {
		// reading calls are legal on a locked world; DumpEntities runs a query of its own
		it.nestedDone[b.Name+"/dump"] = it.Step
		if p := try(func() { _ = b.U.DumpEntities() }); p != nil {
			fail("panic|"+it.cur.K+"|dump-inside-callback", "%s step %d %v: DumpEntities inside a batch callback panicked: %v", b.Name, it.Step, it.cur, p)
		}
		it.count("dump-inside-batch-callback")
	}
	if op := it.cur; op.F >= 0 && op.F < len(b.flt) && op.F < len(it.M.Filters) && b.flt[op.F] != nil && len(op.QRels) > 0 && it.nestedDone[b.Name+"/rebatch"] != it.Step {
		// a Batch value is not a snapshot of its filter: the filter object of the running batch operation is used for
		// another Batch with other targets from inside the callback (no structural change, so it is legal on a locked
		// world); the running operation must go on with the entities it selected
		it.nestedDone[b.Name+"/rebatch"] = it.Step
		if f := it.M.Filters[op.F]; f.Inst >= 0 && !f.Stale {
			t := -1
			for s := len(b.H) - 1; s >= 0 && t < 0; s-- {
				if h := b.H[s]; !h.IsZero() && b.W.Alive(h) {
					t = s
					for _, r := range op.QRels {
						if r.T == s {
							t = -1
						}
					}
				}
			}
			if t >= 0 {
				rs := make([]RelSpec, len(op.QRels))
				copy(rs, op.QRels)
				for i := range rs {
					rs[i].T = t
				}
				if p := try(func() { _ = b.flt[op.F].Batch(b.rels(f.List(), rs)) }); p != nil {
					fail("panic|"+op.K+"|batch-inside-callback", "%s step %d %v: building another Batch from the filter of the running operation inside its callback panicked: %v", b.Name, it.Step, op, p)
				}
				it.count("filter-of-the-running-batch-used-again-inside-its-callback")
			}
		}
	}
	b.tr("callback %v", e)
	return s
}

func (it *Interp) opCopy(op *Op) {
	valid := !it.locked() && it.alive(op.E)
	var s int
	if valid {
		src := it.M.Ents[op.E]
		it.M.Ents = append(it.M.Ents, src)
		s = len(it.M.Ents) - 1
		it.evAt = it.M.Ents
		it.sel = map[int]bool{s: true}
		it.emit(Emission{Ev: EvCreate, Ent: s, New: src.Mask, Kind: 0})
		if hasRel(src.Mask) {
			it.emit(Emission{Ev: EvAddRels, Ent: s, New: src.Mask, Kind: 0})
		}
	}
	it.run(op, valid, func(b *Backend) {
		if valid {
			b.pend = []int{s}
		}
		h := b.W.CopyEntity(b.handle(op.E))
		if valid {
			b.bind(s, h)
			b.pend = nil
			b.tr("copy %v", h)
		}
	})
}

// ---------------------------------------------------------------------------------------------
// single-entity structural changes

// opExchange handles add, remove and exchange.
func (it *Interp) opExchange(op *Op) {
	add, rem := op.Comps, op.Rem
	switch op.K {
	case "add":
		rem = nil
		if op.P == PMap {
			add = MapInsts[op.M].Comps
		} else if op.P == PEx {
			add = ExInsts[op.M].Comps
		}
	case "remove":
		add = nil
		if op.P == PMap {
			rem = MapInsts[op.M].Comps
		}
	case "exchange":
		if op.P == PEx {
			add = ExInsts[op.M].Comps
		}
	}
	valid := !it.locked() && it.alive(op.E) && len(add)+len(rem) > 0 && distinct(add) && distinct(rem)
	if op.K == "add" && len(add) == 0 || op.K == "remove" && len(rem) == 0 {
		valid = false
	}
	var old, nw uint16
	if valid {
		old = it.M.Ents[op.E].Mask
		am, rm := maskOf(add), maskOf(rem)
		if am&old != 0 || rm&^old != 0 || am&rm != 0 {
			valid = false
		}
		nw = old&^rm | am
		if !it.relsValid(am, op.Rels) {
			valid = false
		}
	}
	evVals := op.Vals
	if op.P == PUnsafe || op.Init == InitNilFn {
		evVals = nil
	}
	if valid {
		it.sel = map[int]bool{op.E: true}
		if len(rem) > 0 {
			it.emit(Emission{Ev: EvRemoveComps, Ent: op.E, Old: old, New: nw, Kind: 1, Pre: true})
			if maskOf(rem)&comps.RelMask != 0 {
				it.emit(Emission{Ev: EvRemoveRels, Ent: op.E, Old: old, New: nw, Kind: 1, Pre: true})
			}
		}
		if len(add) > 0 {
			it.emit(Emission{Ev: EvAddComps, Ent: op.E, Old: old, New: nw, Kind: 1})
			if len(op.Rels) > 0 {
				it.emit(Emission{Ev: EvAddRels, Ent: op.E, Old: old, New: nw, Kind: 1})
			}
		}
		it.M.Exchange(op.E, add, evVals, rem, op.Rels)
		it.evAt = it.M.Ents
	}
	it.run(op, valid, func(b *Backend) { it.execExchange(b, op, b.handle(op.E), op.E, add, rem, op.Vals) })
	if valid && op.P == PUnsafe && op.Vals != nil && len(add) > 0 {
		it.lateWrite(op.E, add, op.Vals)
	}
}

// execExchange performs the raw add/remove/exchange call for one entity.
func (it *Interp) execExchange(b *Backend, op *Op, h ecs.Entity, s int, add, rem []int, vals []int64) {
	if op.P == PUnsafe || b.Pol.ForceUnsafe {
		switch {
		case len(rem) == 0 && op.Mode != 2:
			if len(op.Rels) == 0 && op.Mode == 0 {
				b.U.Add(h, b.ids(add)...)
			} else {
				b.U.AddRel(h, b.ids(add), b.urels(op.Rels)...)
			}
		case len(add) == 0 && op.Mode != 2:
			b.U.Remove(h, b.ids(rem)...)
		default:
			b.U.Exchange(h, b.ids(add), b.ids(rem), b.urels(op.Rels)...)
		}
		if op.P != PUnsafe && vals != nil && op.Init != InitNilFn {
			for i, c := range add {
				comps.SetV(c, b.U.Get(h, b.IDs[c]), vals[i])
			}
		}
		return
	}
	fn := func(p Ptrs) { it.initPtrs(b, add, p, vals, h, true) }
	if op.Init == InitNilFn {
		fn = nil
	}
	ra := b.rels(add, op.Rels)
	if op.P == PMap {
		mp := b.Mapper(op.M)
		switch {
		case len(add) == 0:
			mp.Remove(h)
		case op.Init == InitVal:
			mp.Add(h, vals, ra)
		default:
			mp.AddFn(h, fn, ra)
		}
		return
	}
	ex := b.Exchanger(op.M, op.Rem)
	switch {
	case op.K == "remove" || op.K == "removeBatch":
		ex.Remove(h)
	case op.K == "add" || op.K == "addBatch":
		if op.Init == InitVal {
			ex.Add(h, vals, ra)
		} else {
			ex.AddFn(h, fn, ra)
		}
	default:
		if op.Init == InitVal {
			ex.Exchange(h, vals, ra)
		} else {
			ex.ExchangeFn(h, fn, ra)
		}
	}
}

func (it *Interp) opSet(op *Op) {
	list := MapInsts[op.M].Comps
	valid := it.alive(op.E)
	if valid && it.M.Ents[op.E].Mask&maskOf(list) != maskOf(list) {
		panic("bad op: Set on missing component is outside the generated domain")
	}
	if valid {
		e := &it.M.Ents[op.E]
		for i, c := range list {
			e.Val[c] = comps.All[c].Norm(op.Vals[i])
		}
		it.evAt = it.M.Ents
		it.sel = map[int]bool{op.E: true}
		it.emit(Emission{Ev: EvSetComps, Ent: op.E, New: e.Mask, Chg: maskOf(list), Kind: 2})
	}
	it.run(op, valid, func(b *Backend) {
		b.Mapper(op.M).Set(b.handle(op.E), op.Vals)
	})
}

// opWrite writes one component through a pointer obtained from an access path.
func (it *Interp) opWrite(op *Op) {
	c := op.Comps[0]
	e := &it.M.Ents[op.E]
	if !e.Alive || e.Mask&(1<<uint(c)) == 0 {
		panic("bad op: write to missing component")
	}
	e.Val[c] = comps.All[c].Norm(op.Vals[0])
	it.run(op, true, func(b *Backend) {
		h := b.H[op.E]
		switch op.Mode {
		case 0:
			comps.SetV(c, b.U.Get(h, b.IDs[c]), op.Vals[0])
		case 1:
			comps.SetV(c, b.Mapper(c).Get(h)[0], op.Vals[0])
		case 2:
			comps.SetV(c, b.Mapper(comps.N + c).Get(h)[0], op.Vals[0])
		case 3:
			comps.SetV(c, b.U.GetUnchecked(h, b.IDs[c]), op.Vals[0])
		default:
			// through a mapper that contains c
			mp := b.Mapper(op.M)
			for j, cc := range mp.Comps() {
				if cc == c {
					comps.SetV(c, mp.GetUnchecked(h)[j], op.Vals[0])
				}
			}
		}
	})
}

func (it *Interp) opSetRel(op *Op) {
	valid := !it.locked() && it.alive(op.E) && len(op.Rels) > 0
	var chg uint16
	if valid {
		e := &it.M.Ents[op.E]
		var given uint16
		for _, r := range op.Rels {
			if !comps.All[r.C].Relation || given&(1<<uint(r.C)) != 0 || e.Mask&(1<<uint(r.C)) == 0 || !it.M.targetOK(r.T) {
				valid = false
				break
			}
			given |= 1 << uint(r.C)
			if e.Tgt[r.C] != r.T {
				chg |= 1 << uint(r.C)
			}
		}
	}
	if valid && chg != 0 {
		e := &it.M.Ents[op.E]
		it.sel = map[int]bool{op.E: true}
		it.emit(Emission{Ev: EvRemoveRels, Ent: op.E, New: e.Mask, Chg: chg, Kind: 2, Pre: true})
		it.emit(Emission{Ev: EvAddRels, Ent: op.E, New: e.Mask, Chg: chg, Kind: 2})
		for _, r := range op.Rels {
			e.Tgt[r.C] = r.T
		}
		it.evAt = it.M.Ents
	}
	it.run(op, valid, func(b *Backend) {
		h := b.handle(op.E)
		if op.P == PUnsafe || b.Pol.ForceUnsafe {
			b.U.SetRelations(h, b.urels(op.Rels)...)
			return
		}
		mp := b.Mapper(op.M)
		mp.SetRelations(h, b.rels(mp.Comps(), op.Rels))
	})
}

func (it *Interp) opRemoveEntity(op *Op) {
	valid := !it.locked() && it.alive(op.E)
	if valid {
		m := it.M.Ents[op.E].Mask
		it.sel = map[int]bool{op.E: true}
		it.emit(Emission{Ev: EvRemoveEntity, Ent: op.E, New: m, Kind: 0, Pre: true})
		if hasRel(m) {
			it.emit(Emission{Ev: EvRemoveRels, Ent: op.E, New: m, Kind: 0, Pre: true})
		}
		it.M.Kill(op.E)
		it.evAt = it.M.Ents
		it.classifyTargets([]int{op.E})
	}
	it.run(op, valid, func(b *Backend) { b.W.RemoveEntity(b.handle(op.E)) })
}

// bulkMasks returns the N distinct non-relation component sets of a bulk op (a pure function of op.N and op.Mode).
func bulkMasks(op *Op) []uint16 {
	x := uint64(op.Mode)*2654435761 + 12345
	seen := map[uint16]bool{}
	var out []uint16
	for len(out) < op.N {
		x = x*6364136223846793005 + 1442695040888963407
		mask := uint16(x>>33) &^ comps.RelMask
		if mask == 0 || seen[mask] {
			continue
		}
		seen[mask] = true
		out = append(out, mask)
	}
	return out
}

// opBulk scales the world up: N entities in N distinct archetypes (well beyond 128 / 256 archetypes, tables and graph
// nodes) are created through the ID-based API; every 32nd stays alive, the others are removed at once. Generated as
// the first operation of a case only (no observers, not locked), so that everything else then runs on a large world.
func (it *Interp) opBulk(op *Op) {
	if it.locked() {
		panic("bad op: bulk under lock")
	}
	for _, o := range it.M.Obs {
		if o.Registered {
			panic("bad op: bulk with registered observers")
		}
	}
	if op.Sub == "rel" {
		it.opBulkRel(op)
		return
	}
	masks := bulkMasks(op)
	base := len(it.M.Ents)
	for i, m := range masks {
		s := it.M.Create(listOf(m), nil, nil)
		if i%32 != 0 {
			it.M.Kill(s)
		}
	}
	it.run(op, true, func(b *Backend) {
		for i, m := range masks {
			h := b.U.NewEntity(b.ids(listOf(m))...)
			b.bind(base+i, h)
			if i%32 != 0 {
				b.W.RemoveEntity(h)
			}
		}
	})
	it.count("bulk-archetypes")
	if op.N > 256 {
		it.count("bulk-more-than-256-archetypes")
	}
}

// opBulkRel scales one relation archetype up: N targets and N children, one table per target; most children and
// targets are removed again in four passes (children whose target stays, targets whose table is empty, targets whose
// child stays and is detached), a few of every kind stay. Leaves N tables (most of them free) in one archetype.
func (it *Interp) opBulkRel(op *Op) {
	r := op.Comps[0]
	n := op.N
	base := len(it.M.Ents)
	tgt := func(i int) int { return base + i }
	child := func(i int) int { return base + n + i }
	for i := 0; i < n; i++ {
		it.M.Create(nil, nil, nil)
	}
	for i := 0; i < n; i++ {
		it.M.Create([]int{r}, nil, []RelSpec{{C: r, T: tgt(i)}})
	}
	keepChild := func(i int) bool { return i%32 == 0 || i%32 == 2 }
	keepTarget := func(i int) bool { return i%32 == 0 || i%32 == 1 }
	if op.Mode == 1 {
		// everything (the targets, their children and whatever else is alive) is removed by ONE RemoveEntities call
		for i := 0; i < 2*n; i++ {
			// (entities that existed before stay in the model; bulk ops are generated on an empty world only)
			it.M.Kill(base + i)
		}
		if base != 0 {
			panic("bad op: bulk relation batch removal on a non-empty world")
		}
		it.run(op, true, func(b *Backend) {
			id := b.ids([]int{r})
			for i := 0; i < n; i++ {
				b.bind(tgt(i), b.W.NewEntity())
			}
			for i := 0; i < n; i++ {
				b.bind(child(i), b.U.NewEntityRel(id, ecs.RelID(id[0], b.H[tgt(i)])))
			}
			calls := 0
			b.W.RemoveEntities(b.all.Batch(), func(e ecs.Entity) { calls++ })
			if calls != 2*n {
				fail("batch|bulk|callback-count", "%s: RemoveEntities over %d targets and their %d children ran its callback %d times", b.Name, n, n, calls)
			}
		})
		it.count("bulk-relation-batch-removal")
		if n >= 256 {
			it.count("bulk-relation-batch-removal-of-256-or-more-targets")
		}
		return
	}
	for i := 0; i < n; i++ {
		if !keepChild(i) {
			it.M.Kill(child(i))
		}
	}
	for i := n - 1; i >= 0; i-- {
		if !keepTarget(i) {
			it.M.Kill(tgt(i))
		}
	}
	it.run(op, true, func(b *Backend) {
		id := b.ids([]int{r})
		for i := 0; i < n; i++ {
			b.bind(tgt(i), b.W.NewEntity())
		}
		for i := 0; i < n; i++ {
			b.bind(child(i), b.U.NewEntityRel(id, ecs.RelID(id[0], b.H[tgt(i)])))
		}
		for i := 0; i < n; i++ {
			if !keepChild(i) {
				b.W.RemoveEntity(b.H[child(i)])
			}
		}
		for i := n - 1; i >= 0; i-- {
			if !keepTarget(i) {
				b.W.RemoveEntity(b.H[tgt(i)])
			}
		}
	})
	it.count("bulk-relation-tables")
	if n > 128 {
		it.count("bulk-more-than-128-relation-tables")
	}
}

// ---------------------------------------------------------------------------------------------
// batch operations

func (it *Interp) batchFilterOK(op *Op) bool {
	if op.F < 0 || op.F >= len(it.M.Filters) || it.M.Filters[op.F].Inst < 0 {
		panic("bad op: batch needs a typed filter")
	}
	for _, r := range op.QRels {
		if !it.M.targetOK(r.T) {
			return false
		}
	}
	return true
}

func (it *Interp) opExchangeBatch(op *Op) {
	add, rem := op.Comps, op.Rem
	switch op.K {
	case "addBatch":
		rem = nil
		if op.P == PMap {
			add = MapInsts[op.M].Comps
		} else {
			add = ExInsts[op.M].Comps
		}
	case "removeBatch":
		add = nil
		if op.P == PMap {
			rem = MapInsts[op.M].Comps
		}
	default:
		add = ExInsts[op.M].Comps
	}
	f := it.M.Filters[op.F]
	valid := !it.locked() && it.batchFilterOK(op) && len(add)+len(rem) > 0 && it.relsValid(maskOf(add), op.Rels)
	var sel []int
	if valid {
		sel = it.M.Select(f, op.QRels)
		am, rm := maskOf(add), maskOf(rem)
		for _, s := range sel {
			old := it.M.Ents[s].Mask
			if am&old != 0 || rm&^old != 0 {
				valid = false // duplicate add / removal of a missing component for some selected entity: must be rejected as a whole
			}
		}
	}
	if valid {
		am, rm := maskOf(add), maskOf(rem)
		it.sel = map[int]bool{}
		it.batch = true
		for _, s := range sel {
			it.sel[s] = true
			old := it.M.Ents[s].Mask
			nw := old&^rm | am
			if len(rem) > 0 {
				it.emit(Emission{Ev: EvRemoveComps, Ent: s, Old: old, New: nw, Kind: 1, Pre: true})
				if rm&comps.RelMask != 0 {
					it.emit(Emission{Ev: EvRemoveRels, Ent: s, Old: old, New: nw, Kind: 1, Pre: true})
				}
			}
			if len(add) > 0 {
				it.emit(Emission{Ev: EvAddComps, Ent: s, Old: old, New: nw, Kind: 1})
				if len(op.Rels) > 0 {
					it.emit(Emission{Ev: EvAddRels, Ent: s, Old: old, New: nw, Kind: 1})
				}
			}
			var v []int64
			switch op.Init {
			case InitVal:
				v = op.Vals
			case InitFn:
				v = valsAt(op.Vals, s)
			}
			if len(add) == 0 {
				v = nil
			}
			it.M.Exchange(s, add, v, rem, op.Rels)
		}
		it.evAt = it.M.Ents
		it.classifyBatch(sel)
		if len(op.Rels) > 0 && len(sel) > 0 {
			it.count("batch-add-with-relation")
			for _, o := range it.M.Obs {
				if o.Registered && o.Ev == EvAddRels {
					it.count("batch-add-with-relation-observed")
					break
				}
			}
		}
	}
	it.run(op, valid, func(b *Backend) {
		if b.Pol.ExpandBatches && valid {
			for _, s := range sel {
				v := op.Vals
				if op.Init == InitFn {
					v = valsAt(op.Vals, s)
				}
				it.execExchange(b, op, b.H[s], s, add, rem, v)
			}
			return
		}
		batch := b.flt[op.F].Batch(b.rels(f.List(), op.QRels))
		seen := map[int]int{}
		cbE := func(e ecs.Entity) {
			s := it.inBatchCallback(b, e)
			seen[s]++
		}
		cb := func(e ecs.Entity, p Ptrs) {
			s := it.inBatchCallback(b, e)
			seen[s]++
			it.initPtrs(b, add, p, valsAt(op.Vals, s), e, true)
		}
		usedCb := false
		ra := b.rels(add, op.Rels)
		if op.P == PMap {
			mp := b.Mapper(op.M)
			switch {
			case len(add) == 0:
				if op.Fn {
					usedCb = true
					mp.RemoveBatch(batch, cbE)
				} else {
					mp.RemoveBatch(batch, nil)
				}
			case op.Init == InitVal:
				mp.AddBatch(batch, op.Vals, ra)
			case op.Init == InitFn:
				usedCb = true
				mp.AddBatchFn(batch, cb, ra)
			default:
				mp.AddBatchFn(batch, nil, ra)
			}
		} else {
			ex := b.Exchanger(op.M, op.Rem)
			switch op.K {
			case "removeBatch":
				if op.Fn {
					usedCb = true
					ex.RemoveBatch(batch, cbE)
				} else {
					ex.RemoveBatch(batch, nil)
				}
			case "addBatch":
				switch op.Init {
				case InitVal:
					ex.AddBatch(batch, op.Vals, ra)
				case InitFn:
					usedCb = true
					ex.AddBatchFn(batch, cb, ra)
				default:
					ex.AddBatchFn(batch, nil, ra)
				}
			default:
				switch op.Init {
				case InitVal:
					ex.ExchangeBatch(batch, op.Vals, ra)
				case InitFn:
					usedCb = true
					ex.ExchangeBatchFn(batch, cb, ra)
				default:
					ex.ExchangeBatchFn(batch, nil, ra)
				}
			}
		}
		if usedCb && valid {
			it.checkSeen(b, op, sel, seen, nil)
		}
	})
}

// checkSeen verifies that a batch callback ran exactly once per selected entity (optional entities 0 or 1 times).
func (it *Interp) checkSeen(b *Backend, op *Op, sel []int, seen map[int]int, optional map[int]bool) {
	for _, s := range sel {
		n := seen[s]
		if optional[s] && n <= 1 {
			continue
		}
		if n != 1 {
			fail("callback|"+op.K+"|count", "%s step %d %v: callback ran %d times for selected entity #%d (selection %v)", b.Name, it.Step, op, n, s, sel)
		}
	}
	for s := range seen {
		if !it.sel[s] {
			fail("callback|"+op.K+"|unselected", "%s step %d %v: callback ran for unselected entity #%d", b.Name, it.Step, op, s)
		}
	}
}

func (it *Interp) classifyBatch(sel []int) {
	if len(sel) == 0 {
		it.count("batch-empty")
		return
	}
	it.count("batch-nonempty")
	tables := map[string]bool{}
	for _, s := range sel {
		e := &it.pre[s]
		tables[fmt.Sprint(e.Mask, e.Tgt)] = true
	}
	if len(tables) >= 2 {
		it.count("batch-multi-table")
	}
	if len(sel) < len(it.M.AliveList()) {
		it.count("batch-partial")
	}
	// destination non-empty: some unselected alive entity already has the post-state layout of a selected one
	dst := map[string]bool{}
	for _, s := range sel {
		if s < len(it.M.Ents) && it.M.Ents[s].Alive {
			e := &it.M.Ents[s]
			dst[fmt.Sprint(e.Mask, relTgts(e))] = true
		}
	}
	for s := range it.pre {
		if it.pre[s].Alive && !it.sel[s] {
			if dst[fmt.Sprint(it.pre[s].Mask, relTgts(&it.pre[s]))] {
				it.count("batch-dest-nonempty")
				break
			}
		}
	}
}

func relTgts(e *Ent) []int {
	var l []int
	for c := comps.IR1; c <= comps.IR3; c++ {
		if e.Mask&(1<<uint(c)) != 0 {
			l = append(l, e.Tgt[c])
		}
	}
	return l
}

func (it *Interp) opSetRelBatch(op *Op) {
	f := it.M.Filters[op.F]
	valid := !it.locked() && it.batchFilterOK(op) && len(op.Rels) > 0
	var given uint16
	for _, r := range op.Rels {
		if !comps.All[r.C].Relation || given&(1<<uint(r.C)) != 0 || !it.M.targetOK(r.T) {
			valid = false
		}
		given |= 1 << uint(r.C)
	}
	var sel []int
	unchanged := map[int]bool{}
	if valid {
		sel = it.M.Select(f, op.QRels)
		it.sel = map[int]bool{}
		it.batch = true
		for _, s := range sel {
			if it.M.Ents[s].Mask&given != given {
				valid = false // some selected entity lacks the relation component
			}
		}
	}
	if valid {
		for _, s := range sel {
			e := &it.M.Ents[s]
			it.sel[s] = true
			var chg uint16
			for _, r := range op.Rels {
				if e.Tgt[r.C] != r.T {
					chg |= 1 << uint(r.C)
				}
			}
			if chg == 0 {
				unchanged[s] = true
				continue
			}
			it.emit(Emission{Ev: EvRemoveRels, Ent: s, New: e.Mask, Chg: chg, Kind: 2, Pre: true})
			it.emit(Emission{Ev: EvAddRels, Ent: s, New: e.Mask, Chg: chg, Kind: 2})
		}
		for _, s := range sel {
			for _, r := range op.Rels {
				it.M.Ents[s].Tgt[r.C] = r.T
			}
		}
		it.evAt = it.M.Ents
		it.classifyBatch(sel)
	}
	it.run(op, valid, func(b *Backend) {
		if b.Pol.ExpandBatches && valid {
			for _, s := range sel {
				if op.P == PMap && !b.Pol.ForceUnsafe {
					mp := b.Mapper(op.M)
					mp.SetRelations(b.H[s], b.rels(mp.Comps(), op.Rels))
				} else {
					b.U.SetRelations(b.H[s], b.urels(op.Rels)...)
				}
			}
			return
		}
		batch := b.flt[op.F].Batch(b.rels(f.List(), op.QRels))
		mp := b.Mapper(op.M)
		seen := map[int]int{}
		var cb func(ecs.Entity)
		if op.Fn {
			cb = func(e ecs.Entity) {
				s := it.inBatchCallback(b, e)
				seen[s]++
			}
		}
		mp.SetRelationsBatch(batch, cb, b.rels(mp.Comps(), op.Rels))
		if op.Fn && valid {
			it.checkSeen(b, op, sel, seen, unchanged)
		}
	})
}

func (it *Interp) opRemoveEntities(op *Op) {
	f := it.M.Filters[op.F]
	valid := !it.locked() && it.batchFilterOK(op)
	var sel []int
	if valid {
		sel = it.M.Select(f, op.QRels)
		it.sel = map[int]bool{}
		it.batch = true
		for _, s := range sel {
			it.sel[s] = true
			m := it.M.Ents[s].Mask
			it.emit(Emission{Ev: EvRemoveEntity, Ent: s, New: m, Kind: 0, Pre: true})
			if hasRel(m) {
				it.emit(Emission{Ev: EvRemoveRels, Ent: s, New: m, Kind: 0, Pre: true})
			}
		}
		for _, s := range sel {
			it.M.Kill(s)
		}
		it.evAt = it.M.Ents
		it.classifyBatch(sel)
		it.classifyTargets(sel)
	}
	it.run(op, valid, func(b *Backend) {
		if b.Pol.ExpandBatches && valid {
			for _, s := range sel {
				b.W.RemoveEntity(b.H[s])
			}
			return
		}
		batch := b.flt[op.F].Batch(b.rels(f.List(), op.QRels))
		if !op.Fn {
			b.W.RemoveEntities(batch, nil)
			return
		}
		seen := map[int]int{}
		b.W.RemoveEntities(batch, func(e ecs.Entity) {
			s := it.inBatchCallback(b, e)
			seen[s]++
		})
		if valid {
			it.checkSeen(b, op, sel, seen, nil)
		}
	})
}

// classifyTargets counts relation-related classes of a batch removal.
func (it *Interp) classifyTargets(sel []int) {
	selset := map[int]bool{}
	for _, s := range sel {
		selset[s] = true
	}
	detached, co := false, false
	for s := range it.pre {
		e := &it.pre[s]
		if !e.Alive || selset[s] {
			continue
		}
		n := 0
		seenT := map[int]bool{}
		for c := comps.IR1; c <= comps.IR3; c++ {
			if e.Mask&(1<<uint(c)) != 0 && e.Tgt[c] >= 0 && selset[e.Tgt[c]] {
				detached = true
				if !seenT[e.Tgt[c]] {
					n++
					seenT[e.Tgt[c]] = true
				}
			}
		}
		if n >= 2 {
			co = true
		}
	}
	if detached {
		it.count("target-removal-detaches-survivor")
	}
	if co {
		it.count("co-targets-die-in-one-batch")
	}
}

// ---------------------------------------------------------------------------------------------
// filters and queries

func (it *Interp) opFilterNew(op *Op) {
	fs := *op.FS
	fs.Registered = false
	fs.Epoch = it.epoch
	it.M.Filters = append(it.M.Filters, &fs)
	fi := len(it.M.Filters) - 1
	it.run(op, true, func(b *Backend) { b.makeFilter(it.M, fi) })
}

func (b *Backend) makeFilter(m *Model, fi int) {
	fs := m.Filters[fi]
	for len(b.flt) <= fi {
		b.flt = append(b.flt, nil)
	}
	if fs.Inst < 0 {
		uf := ecs.NewUnsafeFilter(b.W, b.ids(fs.UComps)...)
		// "Without ... Resets previous excludes", "Exclusive ... Overwrites components set via Without": with some builder
		// orders the filter first gets excludes that would make it match nothing (its own first component), or exclusivity
		if len(fs.UComps) > 0 && (fs.Exclusive || len(fs.Without) > 0) {
			switch fs.Order {
			case 1:
				uf = uf.Without(b.ids(fs.UComps[:1])...)
			case 2:
				if !fs.Exclusive {
					uf = uf.Exclusive()
				}
			}
		}
		if fs.Exclusive {
			uf = uf.Exclusive()
		} else if len(fs.Without) > 0 {
			uf = uf.Without(b.ids(fs.Without)...)
		}
		b.uflt[fi] = uf
		return
	}
	b.flt[fi] = b.buildFilter(fs)
	plain := *fs
	plain.Order, plain.Chain = 0, false
	b.twin[fi] = b.buildFilter(&plain) // never registered, plain builder calls; created now because fixed targets must be alive at creation
}

// buildFilter creates an unregistered typed filter from its specification.
func (b *Backend) buildFilter(fs *FilterSpec) Filter {
	f := FilterInsts[fs.Inst].New(b.W)
	with := func() {
		if len(fs.With) == 0 {
			return
		}
		if fs.Order == 3 {
			// "can be called multiple times in chains, or once with multiple arguments"
			for _, c := range fs.With {
				useComps([]int{c}, f.With)
			}
			return
		}
		useComps(fs.With, f.With)
	}
	exclude := func() {
		if fs.Exclusive {
			f.Exclusive()
		} else if len(fs.Without) > 0 {
			if fs.Order == 3 {
				for _, c := range fs.Without {
					useComps([]int{c}, f.Without)
				}
				return
			}
			useComps(fs.Without, f.Without)
		}
	}
	rels := func() {
		if fs.Chain {
			for i := range fs.Rels {
				f.Relations(b.rels(fs.List(), fs.Rels[i:i+1]))
			}
		} else if len(fs.Rels) > 0 {
			f.Relations(b.rels(fs.List(), fs.Rels))
		}
	}
	// relation targets refer to components given before (type parameters or With)
	// and Filter.Exclusive() excludes everything that is not required at the moment it is called, so it comes after With
	order := fs.Order
	if fs.Exclusive && order == 1 {
		order = 0
	}
	switch order {
	case 1:
		exclude()
		with()
		rels()
	case 2:
		with()
		rels()
		exclude()
	default:
		with()
		exclude()
		rels()
	}
	flushScramble()
	return f
}

// opFilterReg registers (Mode 1) or unregisters (Mode 0) a filter.
func (it *Interp) opFilterReg(op *Op) {
	f := it.M.Filters[op.F]
	if f.Inst < 0 || f.Registered == (op.Mode == 1) {
		panic("bad op: filter registration state")
	}
	f.Registered = op.Mode == 1
	it.run(op, true, func(b *Backend) {
		if b.Pol.UncachedOnly {
			return
		}
		// op.N extra registration cycles first (cache IDs, like observer IDs, are handed out by a growing pool)
		for k := 0; k < op.N; k++ {
			if op.Mode == 1 {
				b.flt[op.F].Register()
				b.flt[op.F].Unregister()
			} else {
				b.flt[op.F].Unregister()
				b.flt[op.F].Register()
			}
		}
		if op.Mode == 1 {
			b.flt[op.F].Register()
		} else {
			b.flt[op.F].Unregister()
		}
	})
	if op.N > 0 {
		it.count("filter-registration-cycles")
		if op.N > 256 {
			it.count("filter-more-than-256-registration-cycles")
		}
	}
	nreg := 0
	for _, f := range it.M.Filters {
		if f.Registered {
			nreg++
		}
	}
	for _, b := range it.B {
		if b.Pol.UncachedOnly || b.Pol.SkipStats {
			continue
		}
		if n := b.W.Stats().CachedFilters; n != nreg {
			fail("stats|filterReg|cached-filters", "%s step %d: Stats.CachedFilters=%d, model %d", b.Name, it.Step, n, nreg)
		}
	}
}

func (it *Interp) opQuery(op *Op) {
	for _, r := range op.QRels {
		if !it.M.targetOK(r.T) {
			panic("bad op: query with dead per-query target")
		}
	}
	f := it.M.Filters[op.F]
	f.Queried = true
	sel := it.M.Select(f, op.QRels)
	it.classifyQuery(f, op, sel)
	for _, b := range it.B {
		order := b.RunQuery(it.M, op.F, op.QRels, "query|"+queryKind(f), fmt.Sprintf("step %d", it.Step))
		if f.Registered && f.Inst >= 0 && !b.Pol.UncachedOnly {
			// differential: an identical, never registered filter must select the same entities
			b.useTwin = true
			tw := b.RunQuery(it.M, op.F, op.QRels, "query|twin", fmt.Sprintf("step %d (uncached twin)", it.Step))
			b.useTwin = false
			if len(tw) != len(order) {
				fail("query|cached|twin-differs", "%s step %d: cached filter %d visits %v, uncached twin %v", b.Name, it.Step, op.F, order, tw)
			}
			it.count("cached-vs-twin-compared")
		}
	}
	if f.Registered && f.Emptied {
		it.count("query-cached-after-table-emptied")
	}
}

func queryKind(f *FilterSpec) string {
	if f.Inst < 0 {
		return "unsafe"
	}
	if f.Registered {
		return "cached"
	}
	return "typed"
}

func (it *Interp) classifyQuery(f *FilterSpec, op *Op, sel []int) {
	alive := it.M.NumAlive()
	if len(sel) > 0 && len(sel) < alive {
		tables := map[string]bool{}
		for _, s := range sel {
			e := &it.M.Ents[s]
			tables[fmt.Sprint(e.Mask, relTgts(e))] = true
		}
		if len(tables) >= 2 {
			it.count("query-nontrivial")
		}
		it.count("query-strict-subset")
	}
	if len(f.Rels)+len(op.QRels) > 0 {
		it.count("query-with-relations")
	}
	if f.Registered {
		it.count("query-cached")
	}
	if f.Inst >= 0 {
		it.count(fmt.Sprintf("query-arity-%d", FilterInsts[f.Inst].Arity))
	} else {
		it.count("query-unsafe")
	}
}

// ---------------------------------------------------------------------------------------------
// world-level operations

func capPow2(n int) int {
	c := 1
	for c < n {
		c *= 2
	}
	return c
}

func (it *Interp) opShrink(op *Op) {
	if it.locked() {
		panic("bad op: Shrink under lock is outside the generated domain")
	}
	nowRel := map[string]bool{}
	for s := range it.M.Ents {
		if e := &it.M.Ents[s]; e.Alive {
			nowRel[layoutKey(e)] = true
		}
	}
	for k, tg := range it.everRel {
		if nowRel[k] {
			continue
		}
		aliveT := false
		ok := true
		for _, t := range tg {
			if t >= 0 {
				if t < len(it.M.Ents) && it.M.Ents[t].Alive {
					aliveT = true
				} else {
					ok = false
				}
			}
		}
		if ok && aliveT {
			it.count("shrink-with-empty-relation-table-of-alive-target")
			it.shrinkAt = it.Step
			break
		}
	}
	it.everRel = map[string][]int{}
	it.run(op, true, func(b *Backend) {
		if b.Pol.SkipShrink {
			return
		}
		switch op.Mode {
		case 0:
			if b.W.Shrink() {
				fail("shrink|unbounded|more-work", "%s step %d: an unbounded Shrink reports remaining work", b.Name, it.Step)
			}
		case 1:
			n := 0
			for b.W.Shrink(0) {
				n++
				if n > 10000 {
					fail("shrink|loop|no-convergence", "%s step %d: for Shrink(0) did not terminate within 10000 iterations", b.Name, it.Step)
				}
			}
		case 2:
			n := 0
			for b.W.Shrink(time.Nanosecond) {
				n++
				if n > 10000 {
					fail("shrink|loop|no-convergence", "%s step %d: for Shrink(1ns) did not terminate within 10000 iterations", b.Name, it.Step)
				}
			}
		default:
			b.W.Shrink(0) // a single bounded step
			return
		}
		// the call (or the loop of time-limited calls) has just reported "no remaining work": the bounds must hold now,
		// before anything else is called
		if it.Opt.ShrinkCaps {
			it.checkShrinkCaps(b)
		}
		mem := b.W.Stats().Memory
		if b.W.Shrink() {
			fail("shrink|converged|more-work", "%s step %d: Shrink reports remaining work right after a complete Shrink", b.Name, it.Step)
		}
		// "no remaining work" means that there is nothing an unbounded Shrink could still release (free tables, which
		// the per-table figures do not list, included)
		if after := b.W.Stats().Memory; after != mem {
			fail("shrink|converged|memory", "%s step %d: after Shrink reported no remaining work (mode %d), an unbounded Shrink still changed the reserved memory from %d to %d bytes", b.Name, it.Step, op.Mode, mem, after)
		}
		if it.Opt.ShrinkCaps {
			it.checkShrinkCaps(b)
		}
	})
}

func (it *Interp) checkShrinkCaps(b *Backend) {
	st := b.W.Stats()
	c1, c2 := b.Cfg.Cap1, b.Cfg.Cap2
	if c1 == 0 {
		c1, c2 = 1024, 128
	} else if c2 == 0 {
		c2 = c1
	}
	for ai := range st.Archetypes {
		a := &st.Archetypes[ai]
		initial := c1
		if a.NumRelations > 0 {
			initial = c2
		}
		sum := 0
		for ti := range a.Tables {
			t := &a.Tables[ti]
			limit := capPow2(t.Size)
			if initial > limit {
				limit = initial
			}
			if t.Capacity < t.Size || t.Capacity > limit {
				fail("shrink|caps|table", "%s step %d: after Shrink archetype %v table %d has size %d capacity %d (initial %d)", b.Name, it.Step, a.ComponentIDs, ti, t.Size, t.Capacity, initial)
			}
			sum += t.Capacity
		}
		if free := a.Capacity - sum; free > a.FreeTables*initial || free < 0 {
			fail("shrink|caps|free-tables", "%s step %d: after Shrink archetype %v: %d free tables hold capacity %d (initial %d)", b.Name, it.Step, a.ComponentIDs, a.FreeTables, free, initial)
		}
		if a.NumRelations > 0 {
			for ti := range a.Tables {
				if a.Tables[ti].Size == 0 {
					fail("shrink|caps|empty-relation-table", "%s step %d: after Shrink archetype %v still has an empty active relation table", b.Name, it.Step, a.ComponentIDs)
				}
			}
		}
	}
}

func (it *Interp) opReset(op *Op) {
	valid := !it.locked()
	if valid {
		for _, o := range it.M.Obs {
			if o.Registered && o.Ev == EvRemoveRels {
				it.count("reset-with-highest-event-observer")
			}
		}
		for _, f := range it.M.Filters {
			if f.Registered {
				it.count("reset-with-registered-filter")
			}
		}
		if it.M.NumAlive() > 0 {
			it.count("reset-nonempty-world")
		}
	}
	it.run(op, valid, func(b *Backend) {
		if b.Pol.FreshOnReset && valid {
			it.freshWorld(b, true)
			return
		}
		b.W.Reset()
		// op.N further rounds on the now empty world: a few queries open at once, all closed, Reset
		for k := 0; k < op.N; k++ {
			q1, q2, q3 := b.all.Query(), b.all.Query(), b.all.Query()
			q2.Close()
			q1.Close()
			q3.Close()
			b.W.Reset()
		}
	})
	if valid && op.N > 0 {
		it.count("many-resets-in-a-row")
	}
	if !valid {
		return
	}
	it.M.Ents = nil
	it.epoch++
	it.pre = nil
	it.everRel = nil
	it.vacated = nil
	it.M.Open = nil // all queries are finished (the world was unlocked); their handles refer to the old state
	for _, f := range it.M.Filters {
		f.Registered = false
		for _, r := range f.Rels {
			if r.T >= 0 {
				f.Stale = true
			}
		}
	}
	for _, o := range it.M.Obs {
		o.Registered = false
	}
	it.M.Resources = map[int]int64{}
	for _, b := range it.B {
		for j := range b.obsOn {
			b.obsOn[j] = false
		}
		b.H = nil
		b.Ser = map[ecs.Entity]int{}
		b.Issued = map[ecs.Entity]bool{}
		st := b.W.Stats()
		if st.Entities.Used != 0 || st.CachedFilters != 0 || st.Observers != 0 || st.Locked {
			fail("reset|stats|not-empty", "%s step %d: after Reset Stats reports used=%d cachedFilters=%d observers=%d locked=%v", b.Name, it.Step, st.Entities.Used, st.CachedFilters, st.Observers, st.Locked)
		}
		for c := 0; c < 4; c++ {
			if b.W.Resources().Has(resID(b, c)) {
				fail("reset|resources|present", "%s step %d: resource %d still present after Reset", b.Name, it.Step, c)
			}
		}
	}
	it.checkResources() // (also through the typed handles the backends have kept)
	// the world is fresh again: loading a dump is possible now - but not while the world is locked
	for _, b := range it.B {
		if b.saved == nil || len(b.saved.dump.Alive) == 0 {
			continue
		}
		q := b.all.Query()
		p := try(func() { b.U.LoadEntities(&b.saved.dump) })
		n := q.Count()
		q.Close()
		if p == nil || n != 0 || b.W.IsLocked() {
			fail("lock|reset|load-on-locked-world", "%s step %d: LoadEntities on a locked, freshly reset world: panic=%v, the open query counts %d entities afterwards", b.Name, it.Step, p != nil, n)
		}
		it.count("load-attempt-on-locked-fresh-world")
	}
}

func (it *Interp) opGC(op *Op) {
	runtime.GC()
	if op.Mode == 1 {
		runtime.GC()
		debug.FreeOSMemory()
	}
	it.count("gc-forced")
}

// ---------------------------------------------------------------------------------------------
// nested attempts inside callbacks

// nested executes the current op's nested actions once, from inside a callback that holds the world lock.
// Every structural action must panic and leave no trace (the comparison after the operation shows that).
func (it *Interp) nested(b *Backend) {
	op := it.cur
	if len(op.Acts) == 0 {
		return
	}
	acts := op.Acts
	key := b.Name
	if it.free == nil {
		it.free = map[int]bool{}
	}
	if it.nestedDone == nil {
		it.nestedDone = map[string]int{}
	}
	if it.nestedDone[key] == it.Step {
		return
	}
	it.nestedDone[key] = it.Step
	for i := range acts {
		a := &acts[i]
		if a.K == "qOpenKeep" {
			it.openKept(b, a, it.keepSel)
			continue
		}
		p := try(func() { it.rawStructural(b, a) })
		if p == nil {
			fail("lock|"+op.K+"|nested-"+a.K+"-accepted", "%s step %d %v: structural operation %v inside a locking callback did not panic", b.Name, it.Step, op, a)
		}
		it.count("nested-structural-rejected")
	}
}

// sameObjectAttempt: from inside a locking callback, a structural call with relation arguments through the very mapper
// or exchanger object of the running operation, naming another target than the running operation does. It must be
// rejected, and it must leave no trace: the object's scratch memory for converted relation arguments is shared with the
// call that is still running (what the running call registers as targets, or where it puts entities, must not change).
// Once per step and backend.
func (it *Interp) sameObjectAttempt(b *Backend) {
	op := it.cur
	if op == nil || len(op.Rels) == 0 || (op.P != PMap && op.P != PEx) || b.Pol.ForceUnsafe || !b.W.IsLocked() {
		return
	}
	if it.nestedDone == nil {
		it.nestedDone = map[string]int{}
	}
	key := b.Name + "/same-object"
	if it.nestedDone[key] == it.Step {
		return
	}
	it.nestedDone[key] = it.Step
	t := -1
	for s := len(b.H) - 1; s >= 0 && t < 0; s-- {
		h := b.H[s]
		if h.IsZero() || !b.W.Alive(h) {
			continue
		}
		t = s
		for _, r := range op.Rels {
			if r.T == s {
				t = -1
			}
		}
	}
	if t < 0 {
		return
	}
	rs := make([]RelSpec, len(op.Rels))
	copy(rs, op.Rels)
	for i := range rs {
		rs[i].T = t
	}
	var p any
	if op.P == PMap {
		if op.M >= len(MapInsts) {
			return
		}
		mp := b.Mapper(op.M)
		p = try(func() { mp.SetRelations(b.H[t], b.rels(mp.Comps(), rs)) })
	} else {
		if op.M >= len(ExInsts) {
			return
		}
		ex := b.Exchanger(op.M, op.Rem)
		p = try(func() { ex.Exchange(b.H[t], make([]int64, len(ex.Comps())), b.rels(ex.Comps(), rs)) })
	}
	if p == nil {
		fail("lock|"+op.K+"|same-object-attempt-accepted", "%s step %d %v: a structural call through the running operation's own mapper inside a locking callback did not panic", b.Name, it.Step, op)
	}
	it.count("rejected-attempt-through-the-object-of-the-running-operation")
}

// rawStructural performs a raw structural call (used for attempts that must be rejected).
func (it *Interp) rawStructural(b *Backend, a *Op) {
	h := b.handle(a.E)
	switch a.K {
	case "new":
		if a.P == PWorld {
			b.W.NewEntity()
		} else {
			b.U.NewEntity(b.ids(a.Comps)...)
		}
	case "newBatch":
		b.W.NewEntities(2, nil)
	case "copy":
		b.W.CopyEntity(h)
	case "add":
		b.U.Add(h, b.ids(a.Comps)...)
	case "remove":
		b.U.Remove(h, b.ids(a.Rem)...)
	case "exchange":
		b.U.Exchange(h, b.ids(a.Comps), b.ids(a.Rem))
	case "removeEntity":
		b.W.RemoveEntity(h)
	case "removeEntities":
		b.W.RemoveEntities(it.nestedBatch(b, a), nil)
	case "mapAddBatch":
		b.Mapper(a.M).AddBatch(it.nestedBatch(b, a), make([]int64, len(MapInsts[a.M].Comps)), nil)
	case "mapRemoveBatch":
		b.Mapper(a.M).RemoveBatch(it.nestedBatch(b, a), nil)
	case "exBatch":
		b.Exchanger(a.M, nil).AddBatch(it.nestedBatch(b, a), make([]int64, len(ExInsts[a.M].Comps)), nil)
	case "setRel":
		b.U.SetRelations(h, b.urels(a.Rels)...)
	case "reset":
		b.W.Reset()
	case "mapAdd":
		b.Mapper(a.M).Add(h, make([]int64, len(MapInsts[a.M].Comps)), nil)
	case "mapRemove":
		b.Mapper(a.M).Remove(h)
	case "mapNew":
		b.Mapper(a.M).NewEntityFn(nil, nil)
	case "mapNewBatch":
		b.Mapper(a.M).NewBatchFn(1, nil, nil)
	case "removeBatch":
		b.Mapper(a.M).RemoveBatch(b.all.Batch(), nil)
	default:
		panic("unknown nested action " + a.K)
	}
}

// nestedBatch returns the batch of a nested attempt: of model filter a.F if a.Sub == "f", else of all entities.
func (it *Interp) nestedBatch(b *Backend, a *Op) ecs.Batch {
	if a.Sub == "f" && a.F >= 0 && a.F < len(it.M.Filters) && a.F < len(b.flt) && b.flt[a.F] != nil {
		f := it.M.Filters[a.F]
		if f.Inst >= 0 && !f.Stale {
			return b.flt[a.F].Batch(b.rels(f.List(), nil))
		}
	}
	return b.all.Batch()
}

func sortedInts(m map[int]bool) []int {
	var l []int
	for k := range m {
		l = append(l, k)
	}
	sort.Ints(l)
	return l
}

func layoutKey(e *Ent) string { return fmt.Sprint(e.Mask, relTgts(e)) }

// classifyStep derives class counters from the difference between the pre-state and the current model state.
func (it *Interp) classifyStep() {
	if len(it.pre) == 0 && len(it.M.Ents) == 0 {
		return
	}
	cnt := map[string]int{}
	for s := range it.pre {
		if it.pre[s].Alive {
			cnt[layoutKey(&it.pre[s])]++
		}
	}
	now := map[string]int{}
	for s := range it.M.Ents {
		e := &it.M.Ents[s]
		if !e.Alive {
			continue
		}
		k := layoutKey(e)
		if it.uninit && it.sel[s] && it.vacated[k] && (s >= len(it.pre) || !it.pre[s].Alive || layoutKey(&it.pre[s]) != k) {
			it.count("uninit-add-into-vacated-table")
		}
		now[k]++
		if comps16(e.Mask) {
			it.Cnt["has-pointer-component"] = 1
		}
	}
	for s := range it.pre {
		p := &it.pre[s]
		if !p.Alive {
			continue
		}
		k := layoutKey(p)
		moved := s >= len(it.M.Ents) || !it.M.Ents[s].Alive || layoutKey(&it.M.Ents[s]) != k
		if moved && cnt[k] >= 2 {
			it.count("move-from-shared-table")
		}
		if moved && p.Val != [comps.N]int64{} {
			if it.vacated == nil {
				it.vacated = map[string]bool{}
			}
			it.vacated[k] = true
		}
		if !moved && s < len(it.M.Ents) {
			continue
		}
		if moved && s < len(it.M.Ents) && it.M.Ents[s].Alive {
			if cnt[layoutKey(&it.M.Ents[s])] >= 1 {
				it.count("move-into-nonempty-table")
			}
		}
	}
	// free list: IDs of dead handles that are not alive again
	b0 := it.B[0]
	aliveID := map[uint32]bool{}
	for s := range it.M.Ents {
		if it.M.Ents[s].Alive && s < len(b0.H) {
			aliveID[b0.H[s].ID()] = true
			if b0.H[s].Gen() > 0 {
				it.Cnt["id-reissued"] = 1
			}
		}
	}
	freeIDs := map[uint32]bool{}
	for s := range it.M.Ents {
		if !it.M.Ents[s].Alive && s < len(b0.H) && !aliveID[b0.H[s].ID()] {
			freeIDs[b0.H[s].ID()] = true
		}
	}
	if len(freeIDs) >= 2 {
		it.Cnt["free-list-2"] = 1
	}
	// relation tables emptied in this step
	emptied := false
	for k, n := range cnt {
		if n > 0 && now[k] == 0 && !strings.HasSuffix(k, "[]") {
			emptied = true
			it.count("relation-table-emptied")
			if it.everRel == nil {
				it.everRel = map[string][]int{}
			}
		}
	}
	if emptied {
		it.Cnt["table-emptied-since-stats"] = 1
		for _, f := range it.M.Filters {
			if !f.Registered || f.Stale {
				continue
			}
			for s := range it.pre {
				p := &it.pre[s]
				if p.Alive && hasRel(p.Mask) && now[layoutKey(p)] == 0 && matchEnt(it.pre, p, f, nil) {
					f.Emptied = true
					it.count("cached-relation-table-emptied")
				}
			}
		}
	}
	// remember populated relation layouts (for the Shrink class)
	if it.everRel == nil {
		it.everRel = map[string][]int{}
	}
	for s := range it.M.Ents {
		e := &it.M.Ents[s]
		if e.Alive && hasRel(e.Mask) {
			it.everRel[layoutKey(e)] = relTgts(e)
		}
	}
	c1, c2 := it.B[0].Cfg.Cap1, it.B[0].Cfg.Cap2
	if c1 == 0 {
		c1, c2 = 1024, 128
	} else if c2 == 0 {
		c2 = c1
	}
	for k, n := range now {
		limit := c1
		if strings.Contains(k, "[") && !strings.HasSuffix(k, "[]") {
			limit = c2
		}
		if n > limit && n > cnt[k] {
			it.count("table-grown")
		}
	}
}

func comps16(m uint16) bool {
	for _, c := range listOf(m) {
		if comps.All[c].Pointer {
			return true
		}
	}
	return false
}

// freshWorld replaces the backend's world by a new one with the same registration order and re-creates the
// (unregistered) filters and observers on it (C16: a reset world must behave like a fresh one).
func (it *Interp) freshWorld(b *Backend, withFilters bool) {
	nb := NewBackend(b.Name, b.Cfg, b.Pol)
	nb.Trace = b.Trace
	nb.saved = b.saved
	for i := 0; i < it.M.Extra; i++ {
		ecs.TypeID(nb.W, fillerType(nb.Cfg.Filler+i))
	}
	for _, c := range listOf(it.M.Reg) {
		nb.register(c)
	}
	oldW, oldObs, oldOn := b.W, b.obs, b.obsOn
	*b = *nb
	if it.Step%4 != 3 && len(oldObs) == len(it.M.Obs) {
		// observer objects are not bound to a world: take them out of the old world and keep them for the new one
		for j, o := range oldObs {
			if oldOn[j] {
				o.Unregister(oldW)
			}
		}
		b.obs = oldObs
		b.obsOn = make([]bool, len(oldObs))
		it.count("observer-objects-moved-to-another-world")
	} else {
		for j := range it.M.Obs {
			it.makeObs(b, j)
		}
	}
	if !withFilters {
		return
	}
	for fi, f := range it.M.Filters {
		if f.Stale {
			for len(b.flt) <= fi {
				b.flt = append(b.flt, nil)
			}
			continue
		}
		saved := f.Rels
		// fixed targets of the pre-reset world are gone; such filters are marked stale by the caller
		hasT := false
		for _, r := range f.Rels {
			if r.T >= 0 {
				hasT = true
			}
		}
		if hasT {
			for len(b.flt) <= fi {
				b.flt = append(b.flt, nil)
			}
			continue
		}
		b.makeFilter(it.M, fi)
		f.Rels = saved
	}
}

// opDumpLoad dumps the entity state, resets the world (Mode 0) or builds a fresh one (Mode 1) and loads the dump.
// All alive entities stay alive (same handles) but lose their components.
func (it *Interp) opDumpLoad(op *Op) {
	valid := !it.locked()
	it.run(op, valid, func(b *Backend) {
		dump := b.U.DumpEntities()
		if !valid {
			b.W.Reset()
			return
		}
		if op.Mode == 1 {
			h, ser, iss := b.H, b.Ser, b.Issued
			it.freshWorld(b, false)
			b.H, b.Ser, b.Issued = h, ser, iss
		} else {
			b.W.Reset()
		}
		b.U.LoadEntities(&dump)
		if op.Mode == 1 {
			// re-create the filters now that their fixed targets exist again
			for fi, f := range it.M.Filters {
				for len(b.flt) <= fi {
					b.flt = append(b.flt, nil)
				}
				ok := !f.Stale
				for _, r := range f.Rels {
					if r.T >= 0 && !it.alive(r.T) {
						ok = false
					}
				}
				if ok {
					b.makeFilter(it.M, fi)
				}
			}
		}
	})
	if !valid {
		return
	}
	if op.Mode == 1 {
		for _, f := range it.M.Filters {
			for _, r := range f.Rels {
				if r.T >= 0 && !it.alive(r.T) {
					f.Stale = true // cannot be re-created on the new world: its fixed target is dead
				}
			}
		}
	}
	for s := range it.M.Ents {
		e := &it.M.Ents[s]
		e.Mask = 0
		e.Val = [comps.N]int64{}
		for c := range e.Tgt {
			e.Tgt[c] = -1
		}
	}
	for _, f := range it.M.Filters {
		f.Registered = false
	}
	for _, o := range it.M.Obs {
		o.Registered = false
	}
	for _, b := range it.B {
		for j := range b.obsOn {
			b.obsOn[j] = false
		}
	}
	it.M.Resources = map[int]int64{}
	it.count("dump-load")
}

// opRegister registers one more component type. On a locked world (or beyond the documented maximum) this must panic
// without consuming an ID or disturbing the registered types.
func (it *Interp) opRegister(op *Op) {
	total := it.B[0].numTypes(it.M)
	valid := !it.locked() && total < MaskBits
	it.run(op, valid, func(b *Backend) {
		id := ecs.TypeID(b.W, fillerType(b.Cfg.Filler+it.M.Extra))
		total := b.numTypes(it.M)
		if int(id.Index()) != total {
			fail("registry|register|id", "%s step %d: component type number %d got ID %d", b.Name, it.Step, total+1, id.Index())
		}
	})
	if valid {
		it.M.Extra++
	}
	for _, b := range it.B {
		ids := ecs.ComponentIDs(b.W)
		if n := len(ids); n != b.numTypes(it.M) {
			fail("registry|register|count", "%s step %d: %d component IDs registered, expected %d", b.Name, it.Step, n, b.numTypes(it.M))
		}
		for i, id := range ids {
			if int(id.Index()) != i {
				fail("registry|register|order", "%s step %d: ComponentIDs()[%d] = %d (rejected registration: %v)", b.Name, it.Step, i, id.Index(), !valid)
			}
		}
		b.checkRegistry(it.Step)
	}
}

// checkRegistry verifies that the universe types keep their IDs and relation flags.
func (b *Backend) checkRegistry(step int) {
	for c := 0; c < comps.N; c++ {
		if !b.Reg[c] {
			continue
		}
		info, ok := ecs.ComponentInfo(b.W, b.IDs[c])
		if !ok || info.Type != comps.All[c].Type || info.IsRelation != comps.All[c].Relation {
			fail("registry|info|changed", "%s step %d: ComponentInfo(%s) = %+v, %v", b.Name, step, comps.All[c].Name, info, ok)
		}
		if id := comps.Register(b.W, c); id != b.IDs[c] {
			fail("registry|id|changed", "%s step %d: type %s now maps to ID %d (was %d)", b.Name, step, comps.All[c].Name, id.Index(), b.IDs[c].Index())
		}
	}
}

// numTypes is the number of component types registered in this backend's world.
func (b *Backend) numTypes(m *Model) int {
	n := b.Cfg.Filler + m.Extra
	for c := 0; c < comps.N; c++ {
		if b.Reg[c] {
			n++
		}
	}
	return n
}

// opComps returns the universe components an operation touches (generously).
func opComps(op *Op) uint16 {
	m := maskOf(op.Comps) | maskOf(op.Rem)
	for _, r := range op.Rels {
		m |= 1 << uint(r.C)
	}
	for _, r := range op.QRels {
		m |= 1 << uint(r.C)
	}
	if op.K == "bulk" && op.Sub != "rel" {
		m |= 0xffff &^ comps.RelMask
	}
	switch op.K {
	case "new", "newBatch", "add", "remove", "exchange", "set", "write", "setRel", "addBatch", "removeBatch", "exchangeBatch", "setRelBatch", "read", "probe":
		if op.P == PEx {
			if op.M < len(ExInsts) {
				m |= ExInsts[op.M].Mask
			}
		} else if op.P == PMap || op.K == "read" || op.K == "probe" || op.K == "write" || op.K == "set" || op.K == "setRelBatch" {
			if op.M < len(MapInsts) {
				m |= MapInsts[op.M].Mask
			}
		}
	}
	if op.FS != nil {
		m |= op.FS.Mask() | maskOf(op.FS.Without)
		for _, r := range op.FS.Rels {
			m |= 1 << uint(r.C)
		}
	}
	if op.OS != nil {
		m |= op.OS.C() | maskOf(op.OS.With) | maskOf(op.OS.Without)
	}
	for i := range op.Acts {
		m |= opComps(&op.Acts[i])
		if k := op.Acts[i].K; k == "mapAdd" || k == "mapRemove" || k == "mapNew" || k == "mapNewBatch" || k == "removeBatch" {
			m |= MapInsts[op.Acts[i].M].Mask
		}
	}
	return m
}

// ensureReg registers, on every backend and in component order, the universe types an operation touches that are
// not registered yet (late registration: archetypes and tables usually exist already). Registration is impossible
// on a locked world; the generator does not draw such operations then.
func (it *Interp) ensureReg(op *Op) {
	need := opComps(op) &^ it.M.Reg
	if it.Step == 1 {
		// types registered at world creation
		for c := 0; c < comps.N; c++ {
			if it.B[0].Reg[c] {
				it.M.Reg |= 1 << uint(c)
			}
		}
		need = opComps(op) &^ it.M.Reg
	}
	if need == 0 || it.locked() {
		return
	}
	for _, c := range listOf(need) {
		for _, b := range it.B {
			b.register(c)
		}
		it.M.Reg |= 1 << uint(c)
		it.M.LateReg++
		if len(it.M.Ents) > 0 {
			it.count("late-registration-with-entities")
		}
	}
}
