package eng

import (
	"os"
	"strings"
	"testing"

	"pgregory.net/rapid"
)

// startChildren starts the arkrun binaries listed in VERIF_ARKRUN ("name=path,name=path,...").
func startChildren(t *testing.T) []*Child {
	spec := os.Getenv("VERIF_ARKRUN")
	if spec == "" {
		t.Skip("VERIF_ARKRUN not set (run through ./check)")
	}
	var cs []*Child
	for _, kv := range strings.Split(spec, ",") {
		name, path, _ := strings.Cut(kv, "=")
		c, err := StartChild(name, path, os.Environ())
		if err != nil {
			t.Fatalf("cannot start %s: %v", path, err)
		}
		cs = append(cs, c)
	}
	return cs
}

// runMulti generates cases of property id, executes them in-process (with traces) and in every child process,
// and compares all traces.
func runMulti(t *testing.T, id string) {
	pd := Props[id]
	children := startChildren(t)
	defer func() {
		for _, c := range children {
			c.Stop()
		}
	}()
	st := NewRunStats(id)
	known := KnownSigs()
	defer st.Write()
	rapid.Check(t, func(rt *rapid.T) {
		var last *Interp
		var lastOps []Op
		var lastCfg Config
		pd2 := *pd
		pd2.Extra = func(it *Interp, ops []Op) {
			last, lastOps, lastCfg = it, ops, it.B[0].Cfg
		}
		pd2.Trace = true
		RunCase(rt, &pd2, st, known)
		if last == nil || st.Failed {
			return
		}
		ref := last.B[0].Trace.String()
		for _, b := range last.B[1:] {
			if tr := b.Trace.String(); tr != ref {
				failCase(rt, st, &Case{Property: id, Cfg: lastCfg, Ops: lastOps}, "determinism|in-process|trace-differs",
					"two worlds in one process given the same operations differ: "+firstDiff(ref, tr))
			}
		}
		cs := &Case{Property: id, Profile: pd.Profile.Name, Cfg: lastCfg, Ops: lastOps}
		for _, c := range children {
			r, err := c.Run(cs)
			if err != nil {
				t.Fatalf("INFRA child failure: %v", err)
			}
			if r.Crash != "" {
				failCase(rt, st, cs, "multi|"+c.Name+"|crash", "child "+c.Name+" crashed: "+r.Crash)
			}
			if r.Violation != "" {
				failCase(rt, st, cs, "multi|"+c.Name+"|violation", "child "+c.Name+" reports a violation the reference build does not: "+r.Violation)
			}
			if r.Trace != ref {
				failCase(rt, st, cs, "multi|"+c.Name+"|trace-differs", "execution "+c.Name+" differs from the in-process reference: "+firstDiff(ref, r.Trace))
			}
			st.Classes["child-executions"]++
		}
	})
}

func failCase(rt *rapid.T, st *RunStats, cs *Case, sig, msg string) {
	cs.Sig, cs.Failure = sig, msg
	st.Failed = true
	st.FailSig, st.FailMsg = sig, msg
	if ff := os.Getenv("VERIF_FAILFILE"); ff != "" {
		_ = WriteCase(ff, cs)
		st.FailFile = ff
	}
	st.Write()
	rt.Fatalf("VIOLATION-CASE property=%s sig=%s\n%s\nops=%d", cs.Property, sig, msg, len(cs.Ops))
}

func TestC12(t *testing.T) { runMulti(t, "C12") }
func TestC20(t *testing.T) { runMulti(t, "C20") }

// TestReplayMulti re-executes a saved C12/C20 case in-process and in every child and compares the traces.
func TestReplayMulti(t *testing.T) {
	path := os.Getenv("VERIF_REPLAY")
	if path == "" {
		t.Skip("VERIF_REPLAY not set")
	}
	cs, err := ReadCase(path)
	if err != nil {
		t.Fatal(err)
	}
	pd := Props[cs.Property]
	children := startChildren(t)
	defer func() {
		for _, c := range children {
			c.Stop()
		}
	}()
	var ref string
	func() {
		defer func() {
			if r := recover(); r != nil {
				if v, ok := r.(*Violation); ok {
					t.Fatalf("REPLAY-VIOLATION property=%s sig=%s\n%s", cs.Property, v.Sig, v.Msg)
				}
				panic(r)
			}
		}()
		it := NewInterp(cs.Cfg, []Policy{{}}, pd.Opt)
		var sb strings.Builder
		it.B[0].Trace = &sb
		for i := range cs.Ops {
			it.Apply(&cs.Ops[i])
		}
		it.Final()
		ref = sb.String()
	}()
	for _, c := range children {
		r, err := c.Run(cs)
		if err != nil {
			t.Fatalf("INFRA child failure: %v", err)
		}
		if r.Crash != "" || r.Violation != "" {
			t.Fatalf("REPLAY-VIOLATION property=%s sig=multi|%s|violation\n%s %s", cs.Property, c.Name, r.Crash, r.Violation)
		}
		if r.Trace != ref {
			t.Fatalf("REPLAY-VIOLATION property=%s sig=multi|%s|trace-differs\n%s", cs.Property, c.Name, firstDiff(ref, r.Trace))
		}
	}
}
