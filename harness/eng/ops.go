package eng

import (
	"encoding/json"
	"fmt"
	"os"
)

// API paths.
const (
	PUnsafe = iota // ID-based API (World.Unsafe())
	PMap           // MapInsts[Op.M]
	PEx            // ExInsts[Op.M] with Removes(Op.Rem)
	PWorld         // World.NewEntity / NewEntities / CopyEntity / RemoveEntity
)

// Init modes for operations that add components.
const (
	InitVal   = iota // value-taking variant (Add, NewEntity, NewBatch, ...)
	InitFn           // callback variant, callback writes the payloads
	InitNilFn        // callback variant with nil callback: components stay zero
)

// Config is the per-case world configuration.
type Config struct {
	Cap1   int   `json:"cap1"` // 0 = ark default
	Cap2   int   `json:"cap2"` // 0 = not given
	Filler int   `json:"filler"`
	Perm   []int `json:"perm"`           // registration order of the universe
	Late   int   `json:"late,omitempty"` // the last Late types of Perm are registered only when first used (after tables exist)
}

// Op is one concrete, replayable operation.
type Op struct {
	K     string    `json:"k"`
	E     int       `json:"e,omitempty"`
	P     int       `json:"p,omitempty"` // path
	M     int       `json:"m,omitempty"` // instantiation index
	Comps []int     `json:"comps,omitempty"`
	Rem   []int     `json:"rem,omitempty"`
	Vals  []int64   `json:"vals,omitempty"`
	Init  int       `json:"init,omitempty"`
	Rels  []RelSpec `json:"rels,omitempty"`
	N     int       `json:"n,omitempty"`
	F     int       `json:"f,omitempty"`
	QRels []RelSpec `json:"qrels,omitempty"`
	Fn    bool      `json:"fn,omitempty"` // pass a callback where it is optional
	// filter / observer definitions
	FS *FilterSpec `json:"fs,omitempty"`
	OS *ObsSpec    `json:"os,omitempty"`
	// misc
	Mode int    `json:"mode,omitempty"`
	Sub  string `json:"sub,omitempty"`
	Q    int    `json:"q,omitempty"`
	Acts []Op   `json:"acts,omitempty"` // nested actions (inside callbacks / misuse attempts)
}

func (o Op) String() string {
	b, _ := json.Marshal(o)
	return string(b)
}

// Case is a replayable test case.
type Case struct {
	Property string `json:"property"`
	Profile  string `json:"profile"`
	Seed     uint64 `json:"seed,omitempty"`
	Cfg      Config `json:"cfg"`
	Ops      []Op   `json:"ops"`
	Failure  string `json:"failure,omitempty"`
	Sig      string `json:"signature,omitempty"`
}

// WriteCase writes the case as JSON.
func WriteCase(path string, c *Case) error {
	b, err := json.MarshalIndent(c, "", " ")
	if err != nil {
		return err
	}
	return os.WriteFile(path, b, 0o644)
}

// ReadCase reads a case.
func ReadCase(path string) (*Case, error) {
	b, err := os.ReadFile(path)
	if err != nil {
		return nil, err
	}
	c := &Case{}
	if err := json.Unmarshal(b, c); err != nil {
		return nil, fmt.Errorf("%s: %w", path, err)
	}
	return c, nil
}
