package eng

import "testing"

// TestGraphEdge runs the graph-capacity history alone over a range of seeds (development aid and replay entry).
func TestGraphEdge(t *testing.T) {
	before := graphEdgeHits
	for s := uint64(0); s < 400; s++ {
		graphEdgeCheck(s*8 + 2)
	}
	t.Logf("directed calls at capacity: %d in 400 histories", graphEdgeHits-before)
}
