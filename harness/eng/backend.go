package eng

import (
	"fmt"
	"reflect"
	"sort"
	"strings"
	"unsafe"

	"arkverif/comps"

	"github.com/mlange-42/ark/ecs"
)

// Violation is raised (by panic) when an oracle fails.
type Violation struct {
	Sig string // oracle|op-kind|trigger – used to match known findings
	Msg string
}

func (v *Violation) Error() string { return v.Sig + ": " + v.Msg }

func fail(sig string, format string, a ...any) {
	panic(&Violation{Sig: sig, Msg: fmt.Sprintf(format, a...)})
}

// Policy selects how a backend executes abstract operations.
type Policy struct {
	ForceUnsafe   bool // execute every typed operation through the ID-based API
	ExpandBatches bool // execute batch operations as per-entity operations over the model's selection
	SkipShrink    bool // do not execute Shrink operations
	SkipStats     bool // do not call Stats between operations
	UncachedOnly  bool // never register filters
	DropObsOdd    bool // do not register observers with an odd index (neighbour-independence, C08)
	FreshOnReset  bool // replace the world by a new one instead of calling Reset (C16)
}

// Rec is one recorded observer callback.
type Rec struct {
	Obs int
	Ent int
}

// Backend is one real world plus the bookkeeping to address it by model serials.
type Backend struct {
	resA      ecs.Resource[ResA] // typed resource handles, kept for the life of the backend
	resB      ecs.Resource[ResB]
	resC      ecs.Resource[ResC]
	resD      ecs.Resource[ResD]
	resInit   [4]bool
	resAsk    [4]int
	inReenter bool // a callback is changing the world itself
	Name      string
	Pol       Policy
	Cfg       Config
	W         *ecs.World
	U         ecs.Unsafe
	IDs       [comps.N]ecs.ID
	Reg       [comps.N]bool // registered so far (IDs[c] is meaningless otherwise)
	H         []ecs.Entity  // handle by serial (zero value = not bound yet)
	Ser       map[ecs.Entity]int
	Issued    map[ecs.Entity]bool // every handle issued since creation / last reset
	maps      []Mapper
	exs       map[string]Exchanger
	flt       []Filter // parallel to model.Filters (nil for unsafe filters)
	uflt      map[int]ecs.UnsafeFilter
	twin      map[int]Filter // never-registered twins of registered filters (C05)
	obs       []Obs          // parallel to model.Obs
	obsOn     []bool
	pend      []int // serials of entities being created, not yet bound to a handle
	rec       []Rec
	evReg     ecs.EventRegistry
	evT       [NumEv]ecs.EventType
	all       *ecs.Filter0
	Trace     *strings.Builder
	openQ     map[int]*openQuery
	useTwin   bool
	saved     *backendDump
}

type openQuery struct { // (see also Backend.inReenter)
	q        Query
	expected map[int]bool
	visited  []int
	done     bool
	filter   int
}

// NewBackend creates a world according to cfg.
func NewBackend(name string, cfg Config, pol Policy) *Backend {
	b := &Backend{Name: name, Pol: pol, Cfg: cfg, Ser: map[ecs.Entity]int{}, Issued: map[ecs.Entity]bool{}, exs: map[string]Exchanger{}, uflt: map[int]ecs.UnsafeFilter{}, openQ: map[int]*openQuery{}, twin: map[int]Filter{}}
	switch {
	case cfg.Cap1 == 0:
		b.W = ecs.NewWorld()
	case cfg.Cap2 == 0:
		b.W = ecs.NewWorld(cfg.Cap1)
	default:
		b.W = ecs.NewWorld(cfg.Cap1, cfg.Cap2)
	}
	b.U = b.W.Unsafe()
	for i := 0; i < cfg.Filler; i++ {
		ecs.TypeID(b.W, fillerType(i))
	}
	// as many filler resource types, so that the resources in use get IDs in every mask word
	for i := 0; i < cfg.Filler; i++ {
		ecs.ResourceTypeID(b.W, fillerType(i))
	}
	for i, c := range cfg.Perm {
		if i >= len(cfg.Perm)-cfg.Late {
			break // registered when first used
		}
		b.register(c)
	}
	b.maps = make([]Mapper, len(MapInsts))
	b.evT = [NumEv]ecs.EventType{ecs.OnCreateEntity, ecs.OnRemoveEntity, ecs.OnAddComponents, ecs.OnRemoveComponents, ecs.OnSetComponents, ecs.OnAddRelations, ecs.OnRemoveRelations}
	// the first and the last of the 249 possible custom event types
	b.evT[EvCustom0] = b.evReg.NewEventType()
	for i := 0; i < 247; i++ {
		b.evReg.NewEventType()
	}
	b.evT[EvCustom1] = b.evReg.NewEventType()
	b.all = ecs.NewFilter0(b.W)
	return b
}

var fillerTypes []reflect.Type

func fillerType(i int) reflect.Type {
	for len(fillerTypes) <= i {
		fillerTypes = append(fillerTypes, reflect.ArrayOf(len(fillerTypes)+1, reflect.TypeFor[int8]()))
	}
	return fillerTypes[i]
}

// register registers universe type c (idempotent).
func (b *Backend) register(c int) {
	if !b.Reg[c] {
		b.IDs[c] = comps.Register(b.W, c)
		b.Reg[c] = true
	}
}

func (b *Backend) tr(format string, a ...any) {
	if b.Trace != nil {
		fmt.Fprintf(b.Trace, format, a...)
		b.Trace.WriteByte('\n')
	}
}

// Mapper returns the (lazily created) mapper adapter.
func (b *Backend) Mapper(i int) Mapper {
	if b.maps[i] == nil {
		b.maps[i] = MapInsts[i].New(b.W)
	}
	return b.maps[i]
}

// Exchanger returns the exchange adapter for instantiation i removing rem.
func (b *Backend) Exchanger(i int, rem []int) Exchanger {
	key := fmt.Sprint(i, rem)
	if x, ok := b.exs[key]; ok {
		return x
	}
	x := ExInsts[i].New(b.W)
	if len(rem) >= 2 && (rem[0]+len(rem))%2 == 1 {
		// "can be called multiple times in chains"
		for _, c := range rem {
			useComps([]int{c}, x.Removes)
		}
	} else if len(rem) > 0 {
		useComps(rem, x.Removes)
	}
	flushScramble()
	b.exs[key] = x
	return x
}

func (b *Backend) ids(list []int) []ecs.ID {
	out := make([]ecs.ID, len(list))
	for i, c := range list {
		b.register(c)
		out[i] = b.IDs[c]
	}
	return out
}

// handle returns the handle for serial s (-1 = zero entity).
func (b *Backend) handle(s int) ecs.Entity {
	if s < 0 {
		return ecs.Entity{}
	}
	return b.H[s]
}

func (b *Backend) bind(s int, h ecs.Entity) {
	for len(b.H) <= s {
		b.H = append(b.H, ecs.Entity{})
	}
	if !b.H[s].IsZero() {
		if b.H[s] != h {
			fail("handle|bind|rebind", "%s: serial %d bound to %v, now %v", b.Name, s, b.H[s], h)
		}
		return
	}
	if h.IsZero() {
		fail("handle|create|zero", "%s: creation returned the zero entity", b.Name)
	}
	if b.Issued[h] {
		fail("handle|create|duplicate", "%s: handle %v issued twice", b.Name, h)
	}
	b.Issued[h] = true
	b.H[s] = h
	b.Ser[h] = s
}

// serial resolves a handle seen in a callback or query; binds pending creations in first-seen order.
func (b *Backend) serial(h ecs.Entity) int {
	if s, ok := b.Ser[h]; ok {
		return s
	}
	if len(b.pend) > 0 {
		s := b.pend[0]
		b.pend = b.pend[1:]
		b.bind(s, h)
		return s
	}
	return -2
}

// rels converts model relation specs to adapter arguments; list is the positional component list.
func (b *Backend) rels(list []int, rs []RelSpec) []RelArg {
	if len(rs) == 0 {
		return nil
	}
	out := make([]RelArg, len(rs))
	for i, r := range rs {
		pos := -1
		for j, c := range list {
			if c == r.C {
				pos = j
			}
		}
		st := r.S
		if pos < 0 && st == 0 {
			st = 1
		}
		out[i] = RelArg{Pos: pos, Comp: r.C, Target: b.handle(r.T), Style: st}
	}
	return out
}

func (b *Backend) urels(rs []RelSpec) []ecs.Relation {
	// type-based relations carry no world-specific ID: equal argument lists share one caller-kept slice (see buildRels)
	key := ""
	for _, r := range rs {
		if r.S != 1 {
			key = ""
			break
		}
		key += fmt.Sprint("u", r.C, b.handle(r.T), ";")
	}
	if key != "" {
		relCacheMu.Lock()
		cached, ok := relCache[key]
		relCacheMu.Unlock()
		if ok {
			return cached
		}
	}
	out := make([]ecs.Relation, len(rs))
	for i, r := range rs {
		if r.S == 1 {
			out[i] = comps.RelOf(r.C, b.handle(r.T))
		} else {
			out[i] = ecs.RelID(b.IDs[r.C], b.handle(r.T))
		}
	}
	if key != "" {
		relCacheMu.Lock()
		relCache[key] = out
		relCacheMu.Unlock()
	}
	return out
}

// try runs f and returns the recovered panic value, re-raising harness violations.
func try(f func()) (p any) {
	defer func() {
		if r := recover(); r != nil {
			if v, ok := r.(*Violation); ok {
				panic(v)
			}
			if isRapidPanic(r) {
				panic(r)
			}
			p = r
		}
	}()
	f()
	return nil
}

func isRapidPanic(r any) bool {
	s := fmt.Sprintf("%T", r)
	return strings.Contains(s, "rapid.")
}

// ---------------------------------------------------------------------------------------------
// world comparison

// compareEntity compares alive entity s of the world with model entity e. ents is the entity table used to
// resolve targets. where is used in messages.
func (b *Backend) compareEntity(sigp string, s int, e *Ent, where string) {
	h := b.H[s]
	if !b.W.Alive(h) {
		fail(sigp+"|alive", "%s %s: entity #%d %v should be alive", b.Name, where, s, h)
	}
	ids := b.U.IDs(h)
	var got uint16
	for i := 0; i < ids.Len(); i++ {
		id := ids.Get(i)
		found := false
		for c := 0; c < comps.N; c++ {
			if b.Reg[c] && b.IDs[c] == id {
				if got&(1<<uint(c)) != 0 {
					fail(sigp+"|ids", "%s %s: entity #%d lists component %s twice", b.Name, where, s, comps.All[c].Name)
				}
				got |= 1 << uint(c)
				found = true
			}
		}
		if !found {
			fail(sigp+"|ids", "%s %s: entity #%d has unknown component id %d", b.Name, where, s, id.Index())
		}
	}
	if got != e.Mask {
		fail(sigp+"|mask", "%s %s: entity #%d %v has components %v, model %v", b.Name, where, s, h, names(got), names(e.Mask))
	}
	for c := 0; c < comps.N; c++ {
		has := e.Mask&(1<<uint(c)) != 0
		if !b.Reg[c] {
			if has {
				fail(sigp+"|unregistered", "%s %s: model entity #%d has component %s which was never registered", b.Name, where, s, comps.All[c].Name)
			}
			continue
		}
		if b.U.Has(h, b.IDs[c]) != has {
			fail(sigp+"|has", "%s %s: entity #%d Has(%s)=%v, model %v", b.Name, where, s, comps.All[c].Name, !has, has)
		}
		if !has {
			continue
		}
		p := b.U.Get(h, b.IDs[c])
		if v := comps.GetV(c, p); v != e.Val[c] {
			fail(sigp+"|value", "%s %s: entity #%d %v component %s holds %d, model %d", b.Name, where, s, h, comps.All[c].Name, v, e.Val[c])
		}
		if e.Val[c] == 0 && !comps.IsZeroBytes(c, p) {
			fail(sigp+"|memory-nonzero", "%s %s: entity #%d %v component %s was never written but its memory is not all zero", b.Name, where, s, h, comps.All[c].Name)
		}
		if comps.All[c].Relation {
			t := b.U.GetRelation(h, b.IDs[c])
			if t != b.handle(e.Tgt[c]) {
				fail(sigp+"|target", "%s %s: entity #%d %v relation %s targets %v, model #%d %v", b.Name, where, s, h, comps.All[c].Name, t, e.Tgt[c], b.handle(e.Tgt[c]))
			}
			if !t.IsZero() && !b.W.Alive(t) {
				fail(sigp+"|target-dead", "%s %s: entity #%d relation %s targets dead entity %v", b.Name, where, s, comps.All[c].Name, t)
			}
		}
	}
}

func names(m uint16) string {
	var s []string
	for _, c := range listOf(m) {
		s = append(s, comps.All[c].Name)
	}
	return "{" + strings.Join(s, ",") + "}"
}

// CheckWorld compares the whole world with the model.
func (b *Backend) CheckWorld(m *Model, sigp string, where string, deep bool) {
	alive := 0
	for s := range m.Ents {
		e := &m.Ents[s]
		if s >= len(b.H) || b.H[s].IsZero() {
			fail(sigp+"|unbound", "%s %s: entity #%d has no handle", b.Name, where, s)
		}
		if !e.Alive {
			if b.W.Alive(b.H[s]) {
				fail(sigp+"|alive", "%s %s: entity #%d %v should be dead", b.Name, where, s, b.H[s])
			}
			continue
		}
		alive++
		b.compareEntity(sigp, s, e, where)
		if deep {
			b.compareTyped(sigp, s, e, where)
		}
	}
	// the two reserved handles were never issued by a creation: they are never alive
	if b.W.Alive(ecs.Entity{}) || b.W.Alive(wildcardHandle) {
		fail(sigp+"|alive-reserved", "%s %s: Alive(zero entity)=%v Alive(%v)=%v", b.Name, where, b.W.Alive(ecs.Entity{}), wildcardHandle, b.W.Alive(wildcardHandle))
	}
	if locked := b.W.IsLocked(); locked != (m.OpenQ > 0) {
		fail(sigp+"|locked", "%s %s: IsLocked=%v, model has %d open queries", b.Name, where, locked, m.OpenQ)
	}
	if deep && m.OpenQ < 60 {
		b.scanAll(m, sigp, where)
	}
	_ = alive
}

// compareTyped reads entity s through Map[T] and one multi-component mapper.
func (b *Backend) compareTyped(sigp string, s int, e *Ent, where string) {
	h := b.H[s]
	for c := 0; c < comps.N; c++ {
		if !b.Reg[c] {
			continue
		}
		mp := b.Mapper(c) // Map[T]
		has := e.Mask&(1<<uint(c)) != 0
		p := mp.Get(h)[0]
		if (p != nil) != has {
			fail(sigp+"|map-get-nil", "%s %s: Map[%s].Get(#%d) nil=%v, model has=%v", b.Name, where, comps.All[c].Name, s, p == nil, has)
		}
		if mp.HasAll(h) != has {
			fail(sigp+"|map-has", "%s %s: Map[%s].Has(#%d) wrong", b.Name, where, comps.All[c].Name, s)
		}
		if has {
			if p != b.U.Get(h, b.IDs[c]) {
				fail(sigp+"|map-get-ptr", "%s %s: Map[%s].Get(#%d) differs from Unsafe.Get", b.Name, where, comps.All[c].Name, s)
			}
			if comps.All[c].Relation {
				if t := mp.GetRelation(h, 0); t != b.handle(e.Tgt[c]) {
					fail(sigp+"|map-target", "%s %s: Map[%s].GetRelation(#%d)=%v, model #%d", b.Name, where, comps.All[c].Name, s, t, e.Tgt[c])
				}
			}
		}
	}
	// one multi-arity mapper chosen by serial
	i := 2*comps.N + (s*7+len(where))%(len(MapInsts)-2*comps.N)
	if b.regMask()&MapInsts[i].Mask == MapInsts[i].Mask {
		b.checkMapperGet(sigp, i, s, e, where)
	}
	// and every mapper of two or more components of which the entity lacks exactly one (HasAll must say no, Get must
	// return nil for that one only)
	for k := 2 * comps.N; k < len(MapInsts); k++ {
		miss := MapInsts[k].Mask &^ e.Mask
		if k != i && miss != 0 && miss&(miss-1) == 0 && b.regMask()&MapInsts[k].Mask == MapInsts[k].Mask {
			b.checkMapperGet(sigp, k, s, e, where)
		}
	}
}

func (b *Backend) checkMapperGet(sigp string, i int, s int, e *Ent, where string) {
	mp := b.Mapper(i)
	h := b.H[s]
	list := mp.Comps()
	ptrs := mp.Get(h)
	all := true
	for j, c := range list {
		has := e.Mask&(1<<uint(c)) != 0
		if !has {
			all = false
		}
		if (ptrs[j] != nil) != has {
			fail(sigp+"|mapn-get-nil", "%s %s: %s.Get(#%d)[%d] nil=%v, model has=%v", b.Name, where, mp.Name(), s, j, ptrs[j] == nil, has)
		}
		if has {
			if ptrs[j] != b.U.Get(h, b.IDs[c]) {
				fail(sigp+"|mapn-get-ptr", "%s %s: %s.Get(#%d)[%d] is not the entity's %s", b.Name, where, mp.Name(), s, j, comps.All[c].Name)
			}
			if comps.All[c].Relation {
				if t := mp.GetRelation(h, j); t != b.handle(e.Tgt[c]) {
					fail(sigp+"|mapn-target", "%s %s: %s.GetRelation(#%d,%d)=%v, model #%d", b.Name, where, mp.Name(), s, j, t, e.Tgt[c])
				}
			}
		}
	}
	if mp.HasAll(h) != all {
		fail(sigp+"|mapn-hasall", "%s %s: %s.HasAll(#%d)=%v, model %v", b.Name, where, mp.Name(), s, !all, all)
	}
}

// scanAll iterates a Filter0 and an unsafe query over everything and compares with the model.
func (b *Backend) scanAll(m *Model, sigp string, where string) {
	want := m.NumAlive()
	q := b.all.Query()
	if c := q.Count(); c != want {
		q.Close()
		fail(sigp+"|scan-count", "%s %s: Filter0 count %d, model %d alive", b.Name, where, c, want)
	}
	seen := map[int]bool{}
	for q.Next() {
		s, ok := b.Ser[q.Entity()]
		if !ok || !m.Ents[s].Alive {
			q.Close()
			fail(sigp+"|scan-unknown", "%s %s: Filter0 query yields unknown or dead entity %v", b.Name, where, q.Entity())
		}
		if seen[s] {
			q.Close()
			fail(sigp+"|scan-dup", "%s %s: Filter0 query yields #%d twice", b.Name, where, s)
		}
		seen[s] = true
	}
	if len(seen) != want {
		fail(sigp+"|scan-missing", "%s %s: Filter0 query yields %d entities, model %d", b.Name, where, len(seen), want)
	}
	if st := b.W.Stats(); !b.Pol.SkipStats && st.Entities.Used != want {
		fail(sigp+"|stats-used", "%s %s: Stats.Entities.Used=%d, model %d", b.Name, where, st.Entities.Used, want)
	}
	uq := ecs.NewUnsafeFilter(b.W).Query()
	n := 0
	for uq.Next() {
		s, ok := b.Ser[uq.Entity()]
		if !ok || !m.Ents[s].Alive {
			uq.Close()
			fail(sigp+"|scan-unknown", "%s %s: unsafe query yields unknown or dead entity %v", b.Name, where, uq.Entity())
		}
		e := &m.Ents[s]
		ids := uq.IDs()
		if ids.Len() != len(listOf(e.Mask)) {
			uq.Close()
			fail(sigp+"|scan-ids", "%s %s: unsafe query IDs of #%d has %d entries, model %v", b.Name, where, s, ids.Len(), names(e.Mask))
		}
		for _, c := range listOf(e.Mask) {
			if !uq.Has(b.IDs[c]) {
				uq.Close()
				fail(sigp+"|scan-has", "%s %s: unsafe query Has(%s) false for #%d", b.Name, where, comps.All[c].Name, s)
			}
			if v := comps.GetV(c, uq.Get(b.IDs[c])); v != e.Val[c] {
				uq.Close()
				fail(sigp+"|scan-value", "%s %s: unsafe query Get(%s) of #%d holds %d, model %d", b.Name, where, comps.All[c].Name, s, v, e.Val[c])
			}
		}
		n++
	}
	if n != want {
		fail(sigp+"|scan-missing", "%s %s: unsafe query yields %d entities, model %d", b.Name, where, n, want)
	}
}

// ---------------------------------------------------------------------------------------------
// queries

func (b *Backend) filterList(m *Model, fi int) []int { return m.Filters[fi].List() }

// openQueryOn opens a query of filter fi with per-query relations.
func (b *Backend) openQueryOn(m *Model, fi int, extra []RelSpec) Query {
	f := m.Filters[fi]
	if b.useTwin {
		return b.twin[fi].Query(b.rels(f.List(), extra))
	}
	if f.Inst < 0 {
		return &unsafeQuery{q: b.uflt[fi].Query(b.urels(extra)...), b: b, list: f.UComps}
	}
	return b.flt[fi].Query(b.rels(f.List(), extra))
}

// unsafeQuery adapts ecs.UnsafeQuery to Query.
type unsafeQuery struct {
	q    ecs.UnsafeQuery
	b    *Backend
	list []int
}

func (u *unsafeQuery) Next() bool         { return u.q.Next() }
func (u *unsafeQuery) Entity() ecs.Entity { return u.q.Entity() }
func (u *unsafeQuery) Get() Ptrs {
	p := make(Ptrs, len(u.list))
	for i, c := range u.list {
		p[i] = u.q.Get(u.b.IDs[c])
	}
	return p
}
func (u *unsafeQuery) GetRelation(pos int) ecs.Entity { return u.q.GetRelation(u.b.IDs[u.list[pos]]) }
func (u *unsafeQuery) Count() int                     { return u.q.Count() }
func (u *unsafeQuery) EntityAt(i int) ecs.Entity      { return u.q.EntityAt(i) }
func (u *unsafeQuery) Close()                         { u.q.Close() }

// RunQuery iterates filter fi completely and compares with the model's independent enumeration.
// Returns the visit order (serials).
func (b *Backend) RunQuery(m *Model, fi int, extra []RelSpec, sigp string, where string) []int {
	f := m.Filters[fi]
	want := map[int]bool{}
	for _, s := range m.Select(f, extra) {
		want[s] = true
	}
	lockedBefore := b.W.IsLocked()
	q := b.openQueryOn(m, fi, extra)
	if !b.W.IsLocked() {
		fail(sigp+"|query-lock", "%s %s: world not locked by an open query", b.Name, where)
	}
	if c := q.Count(); c != len(want) {
		q.Close()
		fail(sigp+"|count", "%s %s: filter %d %v rel %v: Count=%d, model %d %v", b.Name, where, fi, specStr(f), extra, c, len(want), keys(want))
	}
	var tparams []int
	if f.Inst >= 0 {
		tparams = FilterInsts[f.Inst].Comps
	} else {
		tparams = f.UComps
	}
	var order []int
	seen := map[int]bool{}
	for q.Next() {
		h := q.Entity()
		s, ok := b.Ser[h]
		if !ok {
			q.Close()
			fail(sigp+"|unknown", "%s %s: filter %d yields unknown entity %v", b.Name, where, fi, h)
		}
		if !want[s] {
			q.Close()
			fail(sigp+"|extra", "%s %s: filter %d %v rel %v yields #%d %v which does not match (model %v)", b.Name, where, fi, specStr(f), extra, s, names(m.Ents[s].Mask), keys(want))
		}
		if seen[s] {
			q.Close()
			fail(sigp+"|dup", "%s %s: filter %d %v rel %v yields #%d twice", b.Name, where, fi, specStr(f), extra, s)
		}
		seen[s] = true
		order = append(order, s)
		ptrs := q.Get()
		e := &m.Ents[s]
		for j, c := range tparams {
			if ptrs[j] != b.U.Get(h, b.IDs[c]) {
				q.Close()
				fail(sigp+"|get-ptr", "%s %s: filter %d query Get()[%d] of #%d is not the entity's %s", b.Name, where, fi, j, s, comps.All[c].Name)
			}
			if v := comps.GetV(c, ptrs[j]); v != e.Val[c] {
				q.Close()
				fail(sigp+"|get-value", "%s %s: filter %d query Get()[%d] of #%d holds %d, model %d", b.Name, where, fi, j, s, v, e.Val[c])
			}
			if comps.All[c].Relation {
				if t := q.GetRelation(j); t != b.handle(e.Tgt[c]) {
					q.Close()
					fail(sigp+"|get-relation", "%s %s: filter %d query GetRelation(%d) of #%d = %v, model #%d", b.Name, where, fi, j, s, t, e.Tgt[c])
				}
			}
		}
		if len(order) == 1 {
			if c := q.Count(); c != len(want) {
				q.Close()
				fail(sigp+"|count-during", "%s %s: filter %d Count during iteration=%d, model %d", b.Name, where, fi, c, len(want))
			}
		}
	}
	if len(order) != len(want) {
		fail(sigp+"|missing", "%s %s: filter %d %v rel %v visited %v, model %v", b.Name, where, fi, specStr(f), extra, order, keys(want))
	}
	if b.W.IsLocked() != lockedBefore {
		fail(sigp+"|unlock", "%s %s: lock state after exhausted query %v, before %v", b.Name, where, b.W.IsLocked(), lockedBefore)
	}
	// EntityAt on a fresh query
	q2 := b.openQueryOn(m, fi, extra)
	for i, s := range order {
		if h := q2.EntityAt(i); h != b.H[s] {
			q2.Close()
			fail(sigp+"|entity-at", "%s %s: filter %d EntityAt(%d)=%v, %d-th visited was #%d %v", b.Name, where, fi, i, h, i, s, b.H[s])
		}
	}
	if p := try(func() { q2.EntityAt(len(order)) }); p == nil {
		q2.Close()
		fail(sigp+"|entity-at-range", "%s %s: filter %d EntityAt(%d) out of range does not panic", b.Name, where, fi, len(order))
	}
	q2.Close()
	q2.Close() // closing twice is harmless
	if b.W.IsLocked() != lockedBefore {
		fail(sigp+"|unlock", "%s %s: lock state after closed query %v, before %v", b.Name, where, b.W.IsLocked(), lockedBefore)
	}
	if b.Trace != nil {
		b.tr("query f=%d rel=%v order=%v", fi, extra, b.handlesOf(order))
	}
	return order
}

func (b *Backend) handlesOf(l []int) []ecs.Entity {
	out := make([]ecs.Entity, len(l))
	for i, s := range l {
		out[i] = b.H[s]
	}
	return out
}

func keys(m map[int]bool) []int {
	var l []int
	for k := range m {
		l = append(l, k)
	}
	sort.Ints(l)
	return l
}

func specStr(f *FilterSpec) string {
	s := "with" + names(f.Mask())
	if f.Exclusive {
		s += " exclusive"
	} else if len(f.Without) > 0 {
		s += " without" + names(maskOf(f.Without))
	}
	if len(f.Rels) > 0 {
		s += fmt.Sprint(" rels", f.Rels)
	}
	if f.Registered {
		s += " cached"
	}
	if f.Inst < 0 {
		s += " unsafe"
	} else {
		s += " " + FilterInsts[f.Inst].Name
	}
	return s
}

var _ = unsafe.Pointer(nil)

func (b *Backend) regMask() uint16 {
	var m uint16
	for c := 0; c < comps.N; c++ {
		if b.Reg[c] {
			m |= 1 << uint(c)
		}
	}
	return m
}

var wildcardHandle = mkHandle(1, 0)
