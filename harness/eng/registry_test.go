package eng

import (
	"fmt"
	"reflect"
	"testing"
	"unsafe"

	"arkverif/comps"

	"github.com/mlange-42/ark/ecs"
	"pgregory.net/rapid"
)

// candidate types for the registries: 0..15 the static universe, then generated array and struct types
// types that look similar to relation components but are not (the marker must be embedded as the first field)
type notRelNamed struct {
	M ecs.RelationMarker
	V int32
}
type notRelSecond struct {
	V int32
	ecs.RelationMarker
}
type notRelOtherType struct {
	RelationMarker int64
}
type relWithPayload struct {
	ecs.RelationMarker
	A, B int64
}

// unusually large component types (row strides beyond 1 KiB, 4 KiB and 64 KiB, also an exact multiple of 64 KiB)
type huge1K struct{ V [1031]int8 }
type huge4K struct{ V [513]int64 }
type huge64K struct{ V [65536]int8 }
type huge72K struct{ V [96][96]float64 }

// keptRes is the resource type for which a typed Resource[T] handle is kept for the whole case
type keptRes struct{ V int }

var specialTypes = []reflect.Type{reflect.TypeFor[notRelNamed](), reflect.TypeFor[notRelSecond](), reflect.TypeFor[notRelOtherType](), reflect.TypeFor[relWithPayload](),
	reflect.TypeFor[huge1K](), reflect.TypeFor[huge4K](), reflect.TypeFor[huge64K](), reflect.TypeFor[huge72K](), reflect.TypeFor[keptRes]()}

const lastHuge = 7 // index of the last huge type in specialTypes

// two distinct types whose reflect.Type.String() is the same ("eng.sameName")
func sameNameA() reflect.Type {
	type sameName struct{ A int64 }
	return reflect.TypeFor[sameName]()
}

func sameNameB() reflect.Type {
	type sameName struct{ A [4]int64 }
	return reflect.TypeFor[sameName]()
}

func init() { specialTypes = append(specialTypes, sameNameA(), sameNameB()) }

const firstHuge = 4 // index of the first huge type in specialTypes

func regType(i int) reflect.Type {
	if i >= 1000 {
		// types derived from another type of the pool (resources only): *T, [1]T, []T, struct{ F T }
		base := regType(i % 1000)
		switch i / 1000 {
		case 1:
			return reflect.PointerTo(base)
		case 2:
			return reflect.ArrayOf(1, base)
		case 3:
			return reflect.SliceOf(base)
		default:
			return reflect.StructOf([]reflect.StructField{{Name: "F", Type: base}})
		}
	}
	if i < comps.N {
		return comps.All[i].Type
	}
	i -= comps.N
	if i < len(specialTypes) {
		return specialTypes[i]
	}
	if i%3 == 2 {
		return reflect.StructOf([]reflect.StructField{{Name: "A", Type: reflect.ArrayOf(i/3+1, reflect.TypeFor[uint16]())}, {Name: "B", Type: reflect.TypeFor[uint8]()}})
	}
	if i%3 == 1 {
		return reflect.ArrayOf(i/3+1, reflect.TypeFor[int32]())
	}
	return reflect.ArrayOf(i/3+1, reflect.TypeFor[int8]())
}

const nRegTypes = 300

type regModel struct {
	ids   map[int]uint8 // type index -> id
	order []int         // type index by id
}

func fillBytes(p unsafe.Pointer, n uintptr, seed byte) {
	b := unsafe.Slice((*byte)(p), n)
	for i := range b {
		b[i] = seed + byte(i)*7
	}
}

func checkBytes(p unsafe.Pointer, n uintptr, seed byte) bool {
	b := unsafe.Slice((*byte)(p), n)
	for i := range b {
		if b[i] != seed+byte(i)*7 {
			return false
		}
	}
	return true
}

func testRegistry(rt *rapid.T, st *RunStats) {
	// every call made below is valid unless it is wrapped in try(): an unexpected panic of the library is a violation
	defer func() {
		if r := recover(); r != nil {
			if isRapidPanic(r) {
				panic(r)
			}
			rt.Fatalf("VIOLATION-CASE property=C18 sig=registry|panic|unexpected\nunexpected panic: %v", r)
		}
	}()
	max := MaskBits
	w := ecs.NewWorld(rapid.SampledFrom([]int{1, 2, 8, 64}).Draw(rt, "cap"))
	u := w.Unsafe()
	m := &regModel{ids: map[int]uint8{}}
	resM := &regModel{ids: map[int]uint8{}}
	resVal := map[uint8]any{}
	var kept *ecs.Resource[keptRes] // created when the type is first registered as a resource, then kept
	perm := rapid.Permutation(seq(nRegTypes)).Draw(rt, "typeOrder")
	next := 0 // next unregistered position in perm
	nextRes := 0
	cls := map[string]bool{}
	failf := func(sig string, format string, a ...any) {
		rt.Fatalf("VIOLATION-CASE property=C18 sig=%s\n%s", sig, fmt.Sprintf(format, a...))
	}
	register := func() {
		ti := perm[next]
		tp := regType(ti)
		var id ecs.ID
		p := try(func() { id = ecs.TypeID(w, tp) })
		if len(m.order) >= max {
			if p == nil {
				failf("registry|overflow|accepted", "registering type number %d did not panic (maximum %d)", len(m.order)+1, max)
			}
			cls["overflow-rejected"] = true
			if n := len(ecs.ComponentIDs(w)); n != max {
				failf("registry|overflow|count", "after the rejected registration %d IDs are reported", n)
			}
			return
		}
		if p != nil {
			failf("registry|register|panic", "registering type number %d of %d panicked: %v", len(m.order)+1, max, p)
		}
		if int(id.Index()) != len(m.order) {
			failf("registry|register|id", "type number %d got ID %d", len(m.order)+1, id.Index())
		}
		m.ids[ti] = id.Index()
		m.order = append(m.order, ti)
		next++
	}
	// registerType registers one particular type now (it takes the next ID), whatever the drawn order says
	registerType := func(ti int) bool {
		if _, ok := m.ids[ti]; ok {
			return true
		}
		for k := next; k < len(perm); k++ {
			if perm[k] == ti {
				perm[k], perm[next] = perm[next], perm[k]
				break
			}
		}
		if perm[next] != ti {
			return false
		}
		register()
		_, ok := m.ids[ti]
		return ok
	}
	// entities that stay in the world across steps (universe types only, so that the typed API can be used on them)
	type tracked struct {
		e   ecs.Entity
		val map[int]int64
		tgt map[int]int // index into ents, -1 = zero entity
	}
	var ents []*tracked
	mappers := map[int]Mapper{}
	mapperOf := func(c int) Mapper {
		if mappers[c] == nil {
			mappers[c] = MapInsts[c].New(w)
		}
		return mappers[c]
	}
	handle := func(i int) ecs.Entity {
		if i < 0 {
			return ecs.Entity{}
		}
		return ents[i].e
	}
	// checkTracked compares every tracked entity, through the ID-based API, Map[T] and Filter1[T], with the model
	var checkTrackedInner func(where string)
	checkTracked := func(where string) {
		// every call in here is a valid call on registered types and live entities: a panic is a violation
		if p := try(func() { checkTrackedInner(where) }); p != nil {
			failf("registry|typed|panic", "%s: valid typed / ID-based access panicked (%d types registered): %v", where, len(m.order), p)
		}
	}
	checkTrackedInner = func(where string) {
		for c := 0; c < comps.N; c++ {
			idx, ok := m.ids[c]
			if !ok {
				continue
			}
			id := mkIDOf(w, c)
			if id.Index() != idx {
				failf("registry|typed|id", "%s: universe type %s registered as %d now maps to %d", where, comps.All[c].Name, idx, id.Index())
			}
			mp := mapperOf(c)
			want := 0
			for i, tr := range ents {
				if tr == nil {
					continue
				}
				v, has := tr.val[c]
				if has {
					want++
				}
				if u.Has(tr.e, id) != has {
					failf("registry|typed|unsafe-has", "%s: Unsafe.Has(#%d, %s)=%v, model %v", where, i, comps.All[c].Name, !has, has)
				}
				if mp.HasAll(tr.e) != has {
					failf("registry|typed|map-has", "%s: Map[%s].HasAll(#%d)=%v, model %v (%d types registered)", where, comps.All[c].Name, i, !has, has, len(m.order))
				}
				var ptr unsafe.Pointer
				if p := try(func() { ptr = mp.Get(tr.e)[0] }); p != nil {
					failf("registry|typed|map-get-panic", "%s: Map[%s].Get(#%d) panicked: %v (%d types registered)", where, comps.All[c].Name, i, p, len(m.order))
				}
				if (ptr != nil) != has {
					failf("registry|typed|map-get-nil", "%s: Map[%s].Get(#%d) nil=%v, model has=%v", where, comps.All[c].Name, i, ptr == nil, has)
				}
				if !has {
					continue
				}
				if comps.All[c].Type.Size() > 0 {
					if up := u.Get(tr.e, id); up != ptr {
						failf("registry|typed|map-get-pointer", "%s: Map[%s].Get(#%d) and Unsafe.Get return different storage (%d types registered)", where, comps.All[c].Name, i, len(m.order))
					}
					if got := comps.GetV(c, ptr); got != v {
						failf("registry|typed|map-get-value", "%s: Map[%s].Get(#%d) reads %d, written %d", where, comps.All[c].Name, i, got, v)
					}
				}
				if comps.All[c].Relation {
					wt := handle(tr.tgt[c])
					if got := u.GetRelation(tr.e, id); got != wt {
						failf("registry|typed|unsafe-relation", "%s: Unsafe.GetRelation(#%d, %s)=%v, model %v", where, i, comps.All[c].Name, got, wt)
					}
					if got := mp.GetRelation(tr.e, 0); got != wt {
						failf("registry|typed|map-relation", "%s: Map[%s].GetRelation(#%d)=%v, model %v", where, comps.All[c].Name, i, got, wt)
					}
				}
			}
			// Filter1[T]
			for fi := range FilterInsts {
				if FilterInsts[fi].Arity != 1 || FilterInsts[fi].Comps[0] != c {
					continue
				}
				q := FilterInsts[fi].New(w).Query(nil)
				if n := q.Count(); n != want {
					q.Close()
					failf("registry|typed|filter-count", "%s: Filter1[%s] counts %d, model %d (%d types registered)", where, comps.All[c].Name, n, want, len(m.order))
				}
				seen := 0
				for q.Next() {
					var tr *tracked
					for _, x := range ents {
						if x != nil && x.e == q.Entity() {
							tr = x
						}
					}
					v, has := 0, false
					if tr != nil {
						vv, h := tr.val[c]
						v, has = int(vv), h
					}
					if !has {
						q.Close()
						failf("registry|typed|filter-entity", "%s: Filter1[%s] yields %v which does not have the component", where, comps.All[c].Name, q.Entity())
					}
					if comps.All[c].Type.Size() > 0 {
						if got := comps.GetV(c, q.Get()[0]); got != int64(v) {
							q.Close()
							failf("registry|typed|filter-value", "%s: Filter1[%s] reads %d for %v, written %d", where, comps.All[c].Name, got, q.Entity(), v)
						}
					}
					seen++
				}
				if seen != want {
					failf("registry|typed|filter-visits", "%s: Filter1[%s] visited %d, model %d", where, comps.All[c].Name, seen, want)
				}
				break
			}
		}
	}
	valSeq := int64(1000)
	manyDone := false
	// prefill so that the interesting region is reached
	pre := rapid.SampledFrom([]int{0, 0, 3, max/4 - 2, max - 70, max - 3, max - 1, max}).Draw(rt, "prefill")
	for i := 0; i < pre; i++ {
		register()
	}
	preRes := rapid.SampledFrom([]int{0, 0, 2, max - 1, max}).Draw(rt, "prefillResources")
	for i := 0; i < preRes; i++ {
		ti := perm[i]
		rid := ecs.ResourceTypeID(w, regType(ti))
		if int(rid.Index()) != i {
			failf("resources|register|id", "resource type number %d got ID %d", i+1, rid.Index())
		}
		resM.ids[ti] = rid.Index()
		resM.order = append(resM.order, ti)
		nextRes++
	}
	mkID := func(i uint8) ecs.ID {
		// IDs can only be obtained through the registry
		return ecs.TypeID(w, regType(m.order[i]))
	}
	rt.Repeat(map[string]func(*rapid.T){
		"register": func(t *rapid.T) {
			n := rapid.SampledFrom([]int{1, 1, 1, 2, 5, 70}).Draw(t, "howMany")
			for i := 0; i < n && next < nRegTypes-1; i++ {
				register()
			}
			checkTracked("after register")
		},
		"lookup": func(t *rapid.T) {
			if len(m.order) == 0 {
				t.Skip()
			}
			id := uint8(rapid.IntRange(0, len(m.order)-1).Draw(t, "id"))
			ti := m.order[id]
			tp := regType(ti)
			if got := ecs.TypeID(w, tp); got.Index() != id {
				failf("registry|lookup|unstable", "type %v registered as %d now maps to %d", tp, id, got.Index())
			}
			info, ok := ecs.ComponentInfo(w, mkID(id))
			if !ok || info.Type != tp || info.ID.Index() != id {
				failf("registry|lookup|info", "ComponentInfo(%d) = %+v, %v; want type %v", id, info, ok, tp)
			}
			wantRel := ti < comps.N && comps.All[ti].Relation || tp == reflect.TypeFor[relWithPayload]()
			if info.IsRelation != wantRel {
				failf("registry|lookup|relation-flag", "ComponentInfo(%d).IsRelation=%v for %v", id, info.IsRelation, tp)
			}
			ids := ecs.ComponentIDs(w)
			if len(ids) != len(m.order) {
				failf("registry|lookup|count", "ComponentIDs has %d entries, %d registered", len(ids), len(m.order))
			}
			for i, x := range ids {
				if int(x.Index()) != i {
					failf("registry|lookup|ids", "ComponentIDs[%d]=%d", i, x.Index())
				}
			}
		},
		"populate": func(t *rapid.T) {
			// entities over universe types (registered now if they are not yet), kept across steps; relation targets
			// are other kept entities, so that relation archetypes get several tables
			live := 0
			for _, tr := range ents {
				if tr != nil {
					live++
				}
			}
			if live >= 14 {
				t.Skip()
			}
			cs := rapid.SliceOfNDistinct(rapid.IntRange(0, comps.N-1), 1, 3, rapid.ID[int]).Draw(t, "universeTypes")
			if rapid.Bool().Draw(t, "withRelation") {
				r := rapid.SampledFrom(listOf(comps.RelMask)).Draw(t, "relationType")
				dup := false
				for _, c := range cs {
					dup = dup || c == r
				}
				if !dup {
					cs = append(cs, r)
				}
			}
			var use []int
			for _, c := range cs {
				if registerType(c) {
					use = append(use, c)
				}
			}
			if len(use) == 0 {
				t.Skip()
			}
			sortInts(use)
			n := rapid.IntRange(1, 3).Draw(t, "entities")
			for k := 0; k < n; k++ {
				tr := &tracked{val: map[int]int64{}, tgt: map[int]int{}}
				var ids []ecs.ID
				var rels []ecs.Relation
				for _, c := range use {
					id := mkIDOf(w, c)
					ids = append(ids, id)
					if comps.All[c].Relation {
						tg := -1
						var cand []int
						for i, x := range ents {
							if x != nil {
								cand = append(cand, i)
							}
						}
						if len(cand) > 0 && rapid.IntRange(0, 4).Draw(t, "zeroTarget") != 0 {
							tg = rapid.SampledFrom(cand).Draw(t, "target")
						}
						tr.tgt[c] = tg
						rels = append(rels, ecs.RelID(id, handle(tg)))
					}
				}
				if p := try(func() { tr.e = u.NewEntityRel(ids, rels...) }); p != nil {
					failf("registry|typed|create", "creating an entity with universe types %v panicked: %v", use, p)
				}
				for _, c := range use {
					valSeq++
					tr.val[c] = 0
					if comps.All[c].Type.Size() > 0 {
						comps.SetV(c, u.Get(tr.e, mkIDOf(w, c)), valSeq)
						tr.val[c] = comps.GetV(c, u.Get(tr.e, mkIDOf(w, c)))
					}
				}
				ents = append(ents, tr)
			}
			checkTracked("after populate")
			cls["typed-use-of-universe-types"] = true
			if len(m.order) > comps.N+8 {
				cls["typed-use-after-late-registration"] = true
			}
		},
		"manyArchetypes": func(t *rapid.T) {
			// one universe component shared by well over 128 / 256 archetypes (distinct combinations with other
			// registered types): typed and ID-based queries must still find every entity
			if manyDone {
				t.Skip()
			}
			var others []int // registered non-universe types, by ID
			for id, ti := range m.order {
				if ti >= comps.N && !(regType(ti) == reflect.TypeFor[relWithPayload]()) {
					others = append(others, id)
				}
			}
			if len(others) < 12 {
				t.Skip()
			}
			c := rapid.IntRange(0, comps.N-1).Draw(t, "marker")
			if comps.All[c].Relation || !registerType(c) {
				t.Skip()
			}
			manyDone = true
			want := rapid.SampledFrom([]int{126, 127, 128, 129, 255, 256, 257, 300}).Draw(t, "archetypes")
			start := rapid.IntRange(0, len(others)-1).Draw(t, "firstOther")
			marker := mkIDOf(w, c)
			n := 0
			add := func(extra ...int) {
				if n >= want {
					return
				}
				ids := []ecs.ID{marker}
				for _, x := range extra {
					ids = append(ids, mkID(uint8(others[(start+x)%len(others)])))
				}
				tr := &tracked{val: map[int]int64{}, tgt: map[int]int{}}
				if p := try(func() { tr.e = u.NewEntity(ids...) }); p != nil {
					failf("registry|many|create", "creating archetype number %d with the marker panicked: %v", n+1, p)
				}
				valSeq++
				tr.val[c] = 0
				if comps.All[c].Type.Size() > 0 {
					comps.SetV(c, u.Get(tr.e, marker), valSeq)
					tr.val[c] = comps.GetV(c, u.Get(tr.e, marker))
				}
				ents = append(ents, tr)
				n++
			}
			k := len(others)
			for i := 0; i < k; i++ {
				add(i)
			}
			for i := 0; i < k; i++ {
				for j := i + 1; j < k; j++ {
					add(i, j)
				}
			}
			for i := 0; i < k && n < want; i++ {
				for j := i + 1; j < k && n < want; j++ {
					for l := j + 1; l < k && n < want; l++ {
						add(i, j, l)
					}
				}
			}
			checkTracked(fmt.Sprintf("after creating %d archetypes with a shared component", n))
			if n >= 127 {
				cls["component-shared-by-127-or-more-archetypes"] = true
			}
			if n >= 256 {
				cls["component-shared-by-256-or-more-archetypes"] = true
			}
		},
		"wideEntity": func(t *rapid.T) {
			// one entity with very many components (beyond 128 columns in the 256-bit build), relations among them
			if len(m.order) < 20 {
				t.Skip()
			}
			k := rapid.SampledFrom([]int{17, 33, 63, 64, 127, 128, 129, 130, 200, 255, 256}).Draw(t, "components")
			if k > len(m.order) {
				k = len(m.order)
			}
			first := rapid.IntRange(0, len(m.order)-k).Draw(t, "firstID")
			var ids []ecs.ID
			var rels []ecs.Relation
			var relIDs []ecs.ID
			tgt := w.NewEntity()
			hugeSeen := false
			for id := first; id < first+k; id++ {
				ti := m.order[id]
				if ti >= comps.N+firstHuge && ti <= comps.N+lastHuge {
					if hugeSeen {
						continue // one huge component per entity is enough
					}
					hugeSeen = true
				}
				x := mkID(uint8(id))
				ids = append(ids, x)
				if ti < comps.N && comps.All[ti].Relation || regType(ti) == reflect.TypeFor[relWithPayload]() {
					rels = append(rels, ecs.RelID(x, tgt))
					relIDs = append(relIDs, x)
				}
			}
			var e ecs.Entity
			if p := try(func() { e = u.NewEntityRel(ids, rels...) }); p != nil {
				failf("registry|wide|create", "creating an entity with %d components (IDs %d..%d, %d relations) panicked: %v", len(ids), first, first+k-1, len(rels), p)
			}
			if p := try(func() {
				for _, x := range ids {
					if !u.Has(e, x) {
						failf("registry|wide|has", "entity with %d components lacks ID %d", len(ids), x.Index())
					}
				}
				for _, x := range relIDs {
					if got := u.GetRelation(e, x); got != tgt {
						failf("registry|wide|relation", "relation %d of the wide entity has target %v, want %v", x.Index(), got, tgt)
					}
				}
				q := ecs.NewUnsafeFilter(w, ids...).Query(rels...)
				n := 0
				for q.Next() {
					if q.Entity() == e {
						n++
					}
				}
				if n != 1 {
					failf("registry|wide|query", "query for all %d components and %d relation targets finds the entity %d times", len(ids), len(rels), n)
				}
				if len(relIDs) > 0 {
					other := w.NewEntity()
					u.SetRelations(e, ecs.RelID(relIDs[len(relIDs)-1], other))
					if got := u.GetRelation(e, relIDs[len(relIDs)-1]); got != other {
						failf("registry|wide|set-relation", "SetRelations on the wide entity: target %v, want %v", got, other)
					}
					w.RemoveEntity(other)
					if got := u.GetRelation(e, relIDs[len(relIDs)-1]); !got.IsZero() {
						failf("registry|wide|detach", "target removed, relation still %v", got)
					}
				}
				w.RemoveEntity(e)
				w.RemoveEntity(tgt)
			}); p != nil {
				failf("registry|wide|panic", "valid operation on an entity with %d components panicked: %v", len(ids), p)
			}
			if len(ids) > 128 {
				cls["entity-with-more-than-128-components"] = true
			}
			if len(ids) > 128 && len(relIDs) > 0 {
				cls["wide-entity-with-relation"] = true
			}
		},
		"relationTypesAcrossWorlds": func(t *rapid.T) {
			// IDs belong to a world: two fresh worlds register two relation types in opposite order and are then given
			// the same []Relation (built with Rel[T], shared by buildRels) through a typed mapper
			var cands []int
			for i := 2 * comps.N; i < len(MapInsts); i++ {
				if len(listOf(MapInsts[i].Mask&comps.RelMask)) >= 2 {
					cands = append(cands, i)
				}
			}
			inst := rapid.SampledFrom(cands).Draw(t, "mapper")
			list := MapInsts[inst].Comps
			var rl []int
			for _, c := range list {
				if comps.All[c].Relation {
					rl = append(rl, c)
				}
			}
			worlds := []*ecs.World{ecs.NewWorld(4), ecs.NewWorld(4)}
			for k, wx := range worlds {
				order := append([]int{}, rl...)
				if k == 1 {
					for i, j := 0, len(order)-1; i < j; i, j = i+1, j-1 {
						order[i], order[j] = order[j], order[i]
					}
				}
				for _, c := range order {
					comps.Register(wx, c)
				}
			}
			for k, wx := range worlds {
				var tg []ecs.Entity
				for range rl {
					tg = append(tg, wx.NewEntity()) // the same handles in both worlds
				}
				var args []RelArg
				for i, c := range rl {
					pos := 0
					for j, cc := range list {
						if cc == c {
							pos = j
						}
					}
					args = append(args, RelArg{Pos: pos, Comp: c, Target: tg[i], Style: 1})
				}
				mp := MapInsts[inst].New(wx)
				var e ecs.Entity
				if p := try(func() { e = mp.NewEntity(make([]int64, len(list)), args) }); p != nil {
					failf("registry|worlds|create", "world %d: creating an entity with relations given as Rel[T] panicked: %v", k, p)
				}
				for i, a := range args {
					if got := mp.GetRelation(e, a.Pos); got != tg[i] {
						failf("registry|worlds|relation", "world %d: relation %s given as Rel[T](%v) has target %v", k, comps.All[a.Comp].Name, tg[i], got)
					}
					if id := comps.Register(wx, a.Comp); wx.Unsafe().GetRelation(e, id) != tg[i] {
						failf("registry|worlds|relation-id", "world %d: ID-based look-up of relation %s (ID %d) gives %v, want %v", k, comps.All[a.Comp].Name, id.Index(), wx.Unsafe().GetRelation(e, id), tg[i])
					}
				}
			}
			cls["relation-types-across-two-worlds"] = true
		},
		"removeTracked": func(t *rapid.T) {
			var cand []int
			for i, x := range ents {
				if x != nil {
					cand = append(cand, i)
				}
			}
			if len(cand) == 0 {
				t.Skip()
			}
			i := rapid.SampledFrom(cand).Draw(t, "tracked")
			if p := try(func() { w.RemoveEntity(ents[i].e) }); p != nil {
				failf("registry|typed|remove-entity", "RemoveEntity panicked: %v", p)
			}
			ents[i] = nil
			for _, x := range ents {
				if x != nil {
					for c, tg := range x.tgt {
						if tg == i {
							x.tgt[c] = -1
						}
					}
				}
			}
			checkTracked("after removeTracked")
		},
		"reset": func(t *rapid.T) {
			// Reset removes entities and resources, the registries stay
			if p := try(func() { w.Reset() }); p != nil {
				failf("registry|reset|panic", "Reset panicked: %v", p)
			}
			res := w.Resources()
			for k := range resM.order {
				rid := ecs.ResourceTypeID(w, regType(resM.order[k]))
				if int(rid.Index()) != k {
					failf("resources|reset|id", "resource type %d maps to ID %d after Reset", k, rid.Index())
				}
				if res.Has(rid) || res.Get(rid) != nil {
					failf("resources|reset|present", "resource %d (of %d registered) is still present after Reset", k, len(resM.order))
				}
			}
			if len(resVal) > 0 {
				cls["reset-with-resources"] = true
				for k := range resVal {
					if int(k) >= 64 {
						cls["reset-with-resource-id-above-word-0"] = true
					}
				}
			}
			resVal = map[uint8]any{}
			// (handles from before the Reset are re-issued afterwards, so nothing is asked about them)
			q := ecs.NewFilter0(w).Query()
			if n := q.Count(); n != 0 {
				q.Close()
				failf("registry|reset|entities", "%d entities after Reset", n)
			}
			q.Close()
			ents = nil
			if n := len(ecs.ComponentIDs(w)); n != len(m.order) {
				failf("registry|reset|count", "Reset changed the number of component IDs to %d (was %d)", n, len(m.order))
			}
			checkTracked("after reset")
		},
		"registerLocked": func(t *rapid.T) {
			if len(m.order) >= max || next >= nRegTypes-1 {
				t.Skip()
			}
			q := ecs.NewFilter0(w).Query()
			tp := regType(perm[next])
			p := try(func() { ecs.TypeID(w, tp) })
			q.Close()
			if p == nil {
				failf("registry|locked|accepted", "registering a new type on a locked world did not panic")
			}
			if n := len(ecs.ComponentIDs(w)); n != len(m.order) {
				failf("registry|locked|count", "rejected registration changed the number of IDs to %d (was %d)", n, len(m.order))
			}
			// known types can still be looked up under lock, and the ID is handed out next
			register()
			cls["locked-registration-rolled-back"] = true
		},
		"relFirstUse": func(t *rapid.T) {
			// the first use of a relation type in this world is a Rel[T] argument of an ID-based call: the type is
			// registered by that call and gets the next ID
			var cand []int
			for _, ti := range []int{comps.IR1, comps.IR2, comps.IR3} {
				if _, ok := m.ids[ti]; !ok {
					cand = append(cand, ti)
				}
			}
			if len(cand) == 0 || len(m.order) == 0 || len(m.order) >= max || next >= len(perm) {
				t.Skip()
			}
			ti := rapid.SampledFrom(cand).Draw(t, "relType")
			for k := next; k < len(perm); k++ {
				if perm[k] == ti {
					perm[k], perm[next] = perm[next], perm[k]
					break
				}
			}
			if perm[next] != ti {
				t.Skip()
			}
			tgt := w.NewEntity()
			rel := comps.RelOf(ti, tgt)
			p := try(func() {
				q := ecs.NewUnsafeFilter(w, mkID(0)).Query(rel)
				q.Close()
			})
			w.RemoveEntity(tgt)
			if p != nil {
				failf("registry|rel-first-use|panic", "an ID-based query whose Rel[T] argument names a type for the first time panicked: %v", p)
			}
			if w.IsLocked() {
				failf("registry|rel-first-use|locked", "the world is locked after the query was closed")
			}
			if n := len(ecs.ComponentIDs(w)); n != len(m.order)+1 {
				failf("registry|rel-first-use|count", "after the first use of %v as Rel[T] argument %d component IDs are registered, expected %d", regType(ti), n, len(m.order)+1)
			}
			if id := ecs.TypeID(w, regType(ti)); int(id.Index()) != len(m.order) {
				failf("registry|rel-first-use|id", "type %v, first used as Rel[T] argument, maps to ID %d, expected %d", regType(ti), id.Index(), len(m.order))
			}
			m.ids[ti] = uint8(len(m.order))
			m.order = append(m.order, ti)
			next++
			cls["relation-type-first-used-as-rel-argument"] = true
		},
		"use": func(t *rapid.T) {
			if len(m.order) == 0 {
				t.Skip()
			}
			hi := uint8(len(m.order) - 1)
			cand := []uint8{0, hi}
			for _, b := range []int{62, 63, 64, 65, 127, 128, 191, 192, 254, 255} {
				if b < len(m.order) {
					cand = append(cand, uint8(b))
				}
			}
			// the huge types, when registered (a drawn one of them is always used)
			var hugeIDs []uint8
			for k := firstHuge; k <= lastHuge; k++ {
				if id, ok := m.ids[comps.N+k]; ok {
					hugeIDs = append(hugeIDs, id)
				}
			}
			set := map[uint8]bool{hi: true}
			if len(hugeIDs) > 0 && rapid.IntRange(0, 3).Draw(t, "useHuge") == 0 {
				set[rapid.SampledFrom(hugeIDs).Draw(t, "hugeID")] = true
				cls["used-component-larger-than-1KiB"] = true
			}
			for i := 0; i < 4; i++ {
				set[rapid.SampledFrom(cand).Draw(t, "useID")] = true
			}
			var ids []ecs.ID
			var rels []ecs.Relation
			for id := range set {
				_ = id
			}
			for id := 0; id < len(m.order); id++ {
				if set[uint8(id)] {
					ids = append(ids, mkID(uint8(id)))
					if ti := m.order[id]; ti < comps.N && comps.All[ti].Relation || regType(ti) == reflect.TypeFor[relWithPayload]() {
						rels = append(rels, ecs.RelID(mkID(uint8(id)), ecs.Entity{}))
					}
				}
			}
			var e, other ecs.Entity
			if p := try(func() {
				other = u.NewEntityRel(ids[:1], relsFor(ids[:1], rels, w)...)
				e = u.NewEntityRel(ids, rels...)
			}); p != nil {
				failf("registry|use|create", "creating an entity with component IDs %v (of %d registered, max %d) panicked: %v", idxs(ids), len(m.order), max, p)
			}
			for k, id := range ids {
				info, _ := ecs.ComponentInfo(w, id)
				if !u.Has(e, id) {
					failf("registry|use|has", "entity lacks component %d", id.Index())
				}
				if info.Type.Size() > 0 {
					fillBytes(u.Get(e, id), info.Type.Size(), byte(k+1))
				}
			}
			got := u.IDs(e)
			if got.Len() != len(ids) {
				failf("registry|use|ids", "entity with %d components reports %d IDs", len(ids), got.Len())
			}
			// a second entity in the same archetype must not disturb the first
			var e2 ecs.Entity
			if p := try(func() { e2 = u.NewEntityRel(ids, rels...) }); p != nil {
				failf("registry|use|create", "creating a second entity panicked: %v", p)
			}
			for k, id := range ids {
				info, _ := ecs.ComponentInfo(w, id)
				if info.Type.Size() > 0 && !checkBytes(u.Get(e, id), info.Type.Size(), byte(k+1)) {
					failf("registry|use|value", "component %d of the first entity changed", id.Index())
				}
			}
			// queries
			q := ecs.NewUnsafeFilter(w, ids...).Query()
			n := 0
			for q.Next() {
				if q.Entity() != e && q.Entity() != e2 && q.Entity() != other {
					// entities of earlier rounds may match too; they must have all the components
				}
				for _, id := range ids {
					if !q.Has(id) {
						failf("registry|use|query-has", "query for %v yields an entity without %d", idxs(ids), id.Index())
					}
				}
				if q.Entity() == e || q.Entity() == e2 {
					n++
				}
			}
			if n != 2 {
				failf("registry|use|query", "query for IDs %v found %d of the 2 new entities", idxs(ids), n)
			}
			if len(ids) > 1 {
				q2 := ecs.NewUnsafeFilter(w, ids[:1]...).Without(ids[len(ids)-1]).Query()
				for q2.Next() {
					if q2.Entity() == e || q2.Entity() == e2 {
						q2.Close()
						failf("registry|use|query-without", "Without(%d) does not exclude the entity", ids[len(ids)-1].Index())
					}
				}
				qx := ecs.NewUnsafeFilter(w, ids...).Exclusive().Query()
				cnt := 0
				for qx.Next() {
					if qx.Entity() == e || qx.Entity() == e2 {
						cnt++
					}
				}
				if cnt != 2 {
					failf("registry|use|query-exclusive", "exclusive query for %v found %d of 2", idxs(ids), cnt)
				}
				// exclusive on all but the highest ID: the two entities have one component too many (the highest ID)
				sub := ids[:len(ids)-1]
				var es ecs.Entity
				if p := try(func() { es = u.NewEntityRel(sub, relsFor2(sub, rels)...) }); p != nil {
					failf("registry|use|create", "creating an entity with IDs %v panicked: %v", idxs(sub), p)
				}
				qs := ecs.NewUnsafeFilter(w, sub...).Exclusive().Query()
				found := false
				for qs.Next() {
					if qs.Entity() == e || qs.Entity() == e2 {
						qs.Close()
						failf("registry|use|query-exclusive-extra", "exclusive query for %v yields an entity that also has component %d", idxs(sub), ids[len(ids)-1].Index())
					}
					if qs.Entity() == es {
						found = true
					}
				}
				if !found {
					failf("registry|use|query-exclusive", "exclusive query for %v misses the entity with exactly these components", idxs(sub))
				}
				w.RemoveEntity(es)
				if p := try(func() { u.Remove(e, ids[len(ids)-1]) }); p != nil {
					failf("registry|use|remove", "removing component %d panicked: %v", ids[len(ids)-1].Index(), p)
				}
				if u.Has(e, ids[len(ids)-1]) || !u.Has(e, ids[0]) {
					failf("registry|use|remove", "component set wrong after removing %d", ids[len(ids)-1].Index())
				}
				info, _ := ecs.ComponentInfo(w, ids[0])
				if info.Type.Size() > 0 && !checkBytes(u.Get(e, ids[0]), info.Type.Size(), 1) {
					failf("registry|use|value", "component %d changed when another was removed", ids[0].Index())
				}
			}
			w.RemoveEntity(e)
			w.RemoveEntity(e2)
			w.RemoveEntity(other)
			if w.Alive(e) || w.Alive(e2) {
				failf("registry|use|remove-entity", "entity still alive")
			}
			if len(m.order) == max {
				cls["archetype-with-highest-id-at-maximum"] = true
			}
			if int(hi) >= 64 {
				cls["used-id-above-word-0"] = true
			}
		},
		"resource": func(t *rapid.T) {
			ti := perm[rapid.IntRange(0, min(nextRes+2, nRegTypes-1)).Draw(t, "resType")]
			if rapid.IntRange(0, 3).Draw(t, "theKeptResource") == 0 {
				ti = comps.N + lastHuge + 1 // the type with the kept typed handle
			}
			if rapid.IntRange(0, 3).Draw(t, "derivedResourceType") == 0 {
				// a type derived from a pool type that is registered already or will be soon: distinct types, distinct IDs
				base := perm[rapid.IntRange(0, min(nextRes+2, nRegTypes-1)).Draw(t, "baseType")]
				if len(resM.order) > 0 && rapid.Bool().Draw(t, "ofRegistered") {
					base = rapid.SampledFrom(resM.order).Draw(t, "registeredBase") % 1000
				}
				ti = base + 1000*rapid.IntRange(1, 4).Draw(t, "derivation")
				cls["resource-type-derived-from-another"] = true
			}
			tp := regType(ti)
			id, known := resM.ids[ti]
			if !known {
				var rid ecs.ResID
				p := try(func() { rid = ecs.ResourceTypeID(w, tp) })
				if len(resM.order) >= max {
					if p == nil {
						failf("resources|overflow|accepted", "registering resource type number %d did not panic", len(resM.order)+1)
					}
					cls["resource-overflow-rejected"] = true
					return
				}
				if p != nil || int(rid.Index()) != len(resM.order) {
					failf("resources|register|id", "resource type number %d got ID %d (panic %v)", len(resM.order)+1, rid.Index(), p)
				}
				id = rid.Index()
				resM.ids[ti] = id
				resM.order = append(resM.order, ti)
				nextRes++
			}
			rid := ecs.ResourceTypeID(w, tp)
			if rid.Index() != id {
				failf("resources|lookup|unstable", "resource type maps to %d, was %d", rid.Index(), id)
			}
			if tp2, ok := ecs.ResourceType(w, rid); !ok || tp2 != tp {
				failf("resources|lookup|type", "ResourceType(%d) = %v, %v", id, tp2, ok)
			}
			if rids := ecs.ResourceIDs(w); len(rids) != len(resM.order) {
				failf("resources|ids|count", "ResourceIDs has %d entries, %d registered", len(rids), len(resM.order))
			} else {
				for i, x := range rids {
					if int(x.Index()) != i {
						failf("resources|ids|order", "ResourceIDs[%d]=%d", i, x.Index())
					}
				}
			}
			res := w.Resources()
			_, has := resVal[id]
			if res.Has(rid) != has {
				failf("resources|has", "Has(%d)=%v, model %v", id, !has, has)
			}
			isKept := tp == reflect.TypeFor[keptRes]()
			if isKept && kept == nil {
				h := ecs.NewResource[keptRes](w)
				kept = &h
			}
			if isKept && rapid.IntRange(0, 3).Draw(t, "rebindKeptHandle") == 0 {
				// Resource[T].New on the kept (initialized) handle binds a handle to another world, in which the resource types
				// were registered in another order: it must address keptRes there, not the slot with this world's ID
				w2 := ecs.NewWorld()
				var first ecs.ResID
				for k := 0; k <= (int(id)+1)%7; k++ { // a few other types first (the maximum is never reached)
					first = ecs.ResourceTypeID(w2, reflect.ArrayOf(k+1, reflect.TypeFor[uint64]()))
				}
				h2 := kept.New(w2)
				v2 := &keptRes{V: 4242}
				if p := try(func() { h2.Add(v2) }); p != nil {
					failf("resources|rebound-handle|add", "Add through a handle made by Resource[T].New(otherWorld) panicked: %v", p)
				}
				if got := ecs.GetResource[keptRes](w2); got != v2 || h2.Get() != v2 || !h2.Has() {
					failf("resources|rebound-handle|get", "a handle made by Resource[T].New(otherWorld) does not address T there: GetResource=%p Get=%p Has=%v, added %p", got, h2.Get(), h2.Has(), v2)
				}
				for k := 0; k <= int(first.Index()); k++ {
					if w2.Resources().Has(ecs.ResourceTypeID(w2, reflect.ArrayOf(k+1, reflect.TypeFor[uint64]()))) {
						failf("resources|rebound-handle|other-slot", "adding through a re-bound handle made resource %d of the other world present", k)
					}
				}
				cls["resource-handle-rebound-to-another-world"] = true
			}
			viaHandle := isKept && rapid.Bool().Draw(t, "viaKeptHandle")
			switch rapid.IntRange(0, 2).Draw(t, "resOp") {
			case 0:
				var v any
				if isKept {
					v = &keptRes{V: int(id)*1000 + len(resVal)}
				} else {
					iv := new(int)
					*iv = int(id)*1000 + len(resVal)
					v = iv
				}
				p := try(func() {
					if viaHandle {
						kept.Add(v.(*keptRes))
					} else {
						res.Add(rid, v)
					}
				})
				if has && p == nil {
					failf("resources|add|duplicate-accepted", "second Add for resource %d did not panic", id)
				}
				if !has {
					if p != nil {
						failf("resources|add|panic", "Add for resource %d panicked: %v", id, p)
					}
					resVal[id] = v
				}
			case 1:
				p := try(func() {
					if viaHandle {
						kept.Remove()
					} else {
						res.Remove(rid)
					}
				})
				if !has && p == nil {
					failf("resources|remove|absent-accepted", "Remove of absent resource %d did not panic", id)
				}
				if has {
					if p != nil {
						failf("resources|remove|panic", "Remove of resource %d panicked: %v", id, p)
					}
					delete(resVal, id)
				}
			default:
			}
			// all resources still hold their own values
			for k, v := range resVal {
				r := ecs.ResourceTypeID(w, regType(resM.order[k]))
				got := res.Get(r)
				if got == nil || got != v {
					failf("resources|get", "resource %d does not return the value added", k)
				}
			}
			if kept != nil {
				// the handle that has been kept since the type was registered sees exactly what the other routes see
				kid := resM.ids[comps.N+lastHuge+1]
				want, has := resVal[kid]
				if kept.Has() != has {
					failf("resources|kept-handle|has", "kept Resource[T] handle: Has=%v, model %v", !has, has)
				}
				// (Get is not called every time while the resource is absent: a handle that is not asked in between must
				// still see the resource that is added next)
				if has || rapid.IntRange(0, 3).Draw(t, "askKeptHandleWhileAbsent") == 0 {
					got := kept.Get()
					if has && got != want.(*keptRes) || !has && got != nil {
						failf("resources|kept-handle|get", "kept Resource[T] handle returns %p, the resource registered now is %v", got, want)
					}
				}
				cls["typed-resource-handle-kept"] = true
			}
			if got := res.Get(rid); (got != nil) != (resVal[id] != nil) {
				failf("resources|get", "Get(%d) nil=%v, model present=%v", id, got == nil, resVal[id] != nil)
			}
			if len(resM.order) >= max {
				cls["resources-at-maximum"] = true
			}
		},
	})
	st.Evaluations++
	for k := range cls {
		st.Classes["cases-with-"+k]++
	}
	if len(m.order) == max && cls["archetype-with-highest-id-at-maximum"] {
		st.AddNonTrivial([]byte(fmt.Sprint(perm, pre, len(resM.order), st.Evaluations)))
		if len(st.Samples) < 3 {
			var names []string
			for _, ti := range m.order[:8] {
				names = append(names, regType(ti).String())
			}
			st.Samples = append(st.Samples, map[string]any{"mask_bits": max, "prefill": pre, "resource_prefill": preRes, "registered_component_types": len(m.order),
				"registered_resource_types": len(resM.order), "first_types_in_registration_order": names, "classes": cls})
		}
	}
}

func relsFor(ids []ecs.ID, rels []ecs.Relation, w *ecs.World) []ecs.Relation {
	info, _ := ecs.ComponentInfo(w, ids[0])
	if info.IsRelation {
		return []ecs.Relation{ecs.RelID(ids[0], ecs.Entity{})}
	}
	return nil
}

// relsFor2 returns those of rels whose component is in ids.
func relsFor2(ids []ecs.ID, rels []ecs.Relation) []ecs.Relation {
	var out []ecs.Relation
	for _, r := range rels {
		// (rels were built with RelID in the order of ids; a relation belongs to ids if its ID is among them)
		for _, id := range ids {
			if r == ecs.RelID(id, ecs.Entity{}) {
				out = append(out, r)
			}
		}
	}
	return out
}

func idxs(ids []ecs.ID) []uint8 {
	out := make([]uint8, len(ids))
	for i, id := range ids {
		out[i] = id.Index()
	}
	return out
}

func TestC18(t *testing.T) {
	st := NewRunStats("C18")
	st.Rule = fmt.Sprintf("registration sequences of up to %d+ distinct types (static universe, generated array and struct types) in drawn orders with look-ups interleaved, registrations under lock, "+
		"entities/queries using the lowest, word-boundary and highest IDs through the ID-based API, kept entities over the static universe types (registered at drawn moments, also after relation archetypes "+
		"have several tables) compared through Unsafe, Map[T] and Filter1[T] after every registration, and resource add/get/has/remove histories, against a map model; mask width of this build: %d; "+
		"non-trivial = the case registers exactly the maximum number of component types and creates, queries and removes an archetype that contains the highest ID; distinct = distinct type order and prefill", MaskBits, MaskBits)
	defer st.Write()
	rapid.Check(t, func(rt *rapid.T) { testRegistry(rt, st) })
}

func mkIDOf(w *ecs.World, c int) ecs.ID { return ecs.TypeID(w, comps.All[c].Type) }
