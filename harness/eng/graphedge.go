package eng

import (
	"sort"

	"github.com/mlange-42/ark/ecs"
)

type ge0 struct{ V int32 }
type ge1 struct{ V int32 }
type ge2 struct{ V int32 }
type ge3 struct{ V int32 }
type ge4 struct{ V int32 }
type ge5 struct{ V int32 }
type ge6 struct{ V int32 }
type ge7 struct{ V int32 }
type ge8 struct{ V int32 }
type ge9 struct{ V int32 }

// graphEdgeCheck exercises the archetype graph at the moments its node list is re-allocated (128, 256, 512 nodes), which
// ordinary histories pass at an arbitrary point of an arbitrary operation: a world over 8 to 10 component types is
// driven with multi-component NewEntity / Add / Remove / Exchange calls through the ID-based API while a model keeps the exact
// set of graph nodes (every component set a walk has stepped on), of cached edges and of component sets that have an
// archetype. Whenever the node count stands at a capacity, the next call is chosen, if there is one, such that its
// first step creates a node and a later step follows a cached edge to a node without archetype; the component set it
// ends on is then reached again by another call. Oracle: World.Stats never lists two archetypes with the same component
// set, the archetype sizes per component set equal the model's entity counts, and every entity has exactly the model's
// components. A pure function of seed.
func graphEdgeCheck(seed uint64) {
	x := seed*6364136223846793005 + 1442695040888963407
	next := func(n int) int {
		x = x*6364136223846793005 + 1442695040888963407
		return int((x >> 33) % uint64(n))
	}
	w := ecs.NewWorld(8)
	all := []ecs.ID{
		ecs.ComponentID[ge0](w), ecs.ComponentID[ge1](w), ecs.ComponentID[ge2](w), ecs.ComponentID[ge3](w), ecs.ComponentID[ge4](w),
		ecs.ComponentID[ge5](w), ecs.ComponentID[ge6](w), ecs.ComponentID[ge7](w), ecs.ComponentID[ge8](w), ecs.ComponentID[ge9](w),
	}
	nc := 8 + next(3)
	u := w.Unsafe()
	type edge struct {
		m uint16
		c int
	}
	nodes := map[uint16]bool{0: true}
	edges := map[edge]bool{}
	arch := map[uint16]bool{0: true}
	var ents []ecs.Entity
	mask := map[ecs.Entity]uint16{}
	// walk applies the steps of one call to the model and returns the resulting component set
	walk := func(m uint16, cs []int) uint16 {
		for _, c := range cs {
			n := m ^ 1<<uint(c)
			if !edges[edge{m, c}] {
				nodes[n] = true
				edges[edge{m, c}], edges[edge{n, c}] = true, true
			}
			m = n
		}
		arch[m] = true
		return m
	}
	ids := func(cs []int) []ecs.ID {
		r := make([]ecs.ID, len(cs))
		for i, c := range cs {
			r[i] = all[c]
		}
		return r
	}
	// pick draws k distinct components that are all set (want=true) or all clear in m, in random order
	pick := func(m uint16, k int, want bool) []int {
		var l []int
		for c := 0; c < nc; c++ {
			if (m>>uint(c)&1 == 1) == want {
				l = append(l, c)
			}
		}
		for i := len(l) - 1; i > 0; i-- {
			j := next(i + 1)
			l[i], l[j] = l[j], l[i]
		}
		if len(l) < k {
			return nil
		}
		return l[:k]
	}
	// apply removes rem and adds add (Exchange when both are given; its walk takes the removals first)
	apply := func(e ecs.Entity, rem, add []int) {
		m := mask[e]
		switch {
		case len(rem) == 0:
			u.Add(e, ids(add)...)
		case len(add) == 0:
			u.Remove(e, ids(rem)...)
		default:
			u.Exchange(e, ids(add), ids(rem))
		}
		mask[e] = walk(m, append(append([]int{}, rem...), add...))
	}
	// draw splits a call of k steps on component set m into removals and additions
	draw := func(m uint16, k int) (rem, add []int, ok bool) {
		kr := 0
		switch mode := next(3); {
		case mode == 0:
			kr = k
		case mode == 2 && k >= 2:
			kr = 1 + next(k-1)
		}
		if kr > 0 {
			if rem = pick(m, kr, true); rem == nil {
				return nil, nil, false
			}
		}
		if k-kr > 0 {
			if add = pick(m, k-kr, false); add == nil {
				return nil, nil, false
			}
		}
		return rem, add, true
	}
	create := func(cs []int) {
		e := u.NewEntity(ids(cs)...)
		ents = append(ents, e)
		mask[e] = walk(0, cs)
	}
	check := func(where string) {
		cnt := map[uint16]int{}
		for _, e := range ents {
			cnt[mask[e]]++
		}
		st := w.Stats()
		seen := map[uint16]bool{}
		for i := range st.Archetypes {
			a := &st.Archetypes[i]
			var m uint16
			for _, id := range a.ComponentIDs {
				m |= 1 << uint(id)
			}
			if seen[m] {
				fail("graphedge|duplicate", "graph-capacity seed %d %s: World.Stats lists two archetypes with component IDs %v", seed, where, a.ComponentIDs)
			}
			seen[m] = true
			if a.Size != cnt[m] {
				fail("graphedge|size", "graph-capacity seed %d %s: archetype %v holds %d entities, expected %d", seed, where, a.ComponentIDs, a.Size, cnt[m])
			}
		}
		for m, n := range cnt {
			if n > 0 && !seen[m] {
				fail("graphedge|missing", "graph-capacity seed %d %s: no archetype for component set %b with %d entities", seed, where, m, n)
			}
		}
		for _, e := range ents {
			for c := 0; c < nc; c++ {
				if u.Has(e, all[c]) != (mask[e]>>uint(c)&1 == 1) {
					fail("graphedge|has", "graph-capacity seed %d %s: Has(%v, %d)=%v, expected %v", seed, where, e, c, u.Has(e, all[c]), !u.Has(e, all[c]))
				}
			}
		}
	}
	// directed looks for a call on an existing entity whose first step creates a node and whose last step follows a
	// cached edge to a node without archetype
	directed := func() bool {
		for try := 0; try < 400 && len(ents) > 0; try++ {
			e := ents[next(len(ents))]
			rem, add, dok := draw(mask[e], 2+next(2))
			if !dok {
				continue
			}
			cs := append(append([]int{}, rem...), add...)
			m := mask[e]
			m1 := m ^ 1<<uint(cs[0])
			if nodes[m1] {
				continue
			}
			ok := true
			mm := m1
			for i, c := range cs[1:] {
				n := mm ^ 1<<uint(c)
				if i == len(cs)-2 {
					ok = ok && edges[edge{mm, c}] && !arch[n]
				}
				mm = n
			}
			if !ok {
				continue
			}
			apply(e, rem, add)
			// reach the final component set again, by a fresh entity and by a single step from a neighbour
			var fin []int
			for c := 0; c < nc; c++ {
				if mm>>uint(c)&1 == 1 {
					fin = append(fin, c)
				}
			}
			sort.Ints(fin)
			create(fin)
			return true
		}
		return false
	}
	caps := map[int]bool{128: true, 256: true, 512: true}
	maxNodes, maxSteps := 300, 900
	if nc == 10 {
		maxNodes, maxSteps = 540, 2600
	}
	hits := 0
	for i := 0; i < 6; i++ {
		create(pick(0, 3+next(3), false))
	}
	for step := 0; step < maxSteps && len(nodes) < maxNodes && len(nodes) < 1<<uint(nc)-8; step++ {
		n := len(nodes)
		if caps[n] {
			delete(caps, n)
			if directed() {
				hits++
			}
			check("after the call at capacity")
			continue
		}
		k := 1 + next(3)
		if caps[n+1] || caps[n+2] {
			k = 1 // approach the capacity one node at a time
		}
		switch r := next(10); {
		case r < 2 || len(ents) == 0:
			if k == 1 {
				create(pick(0, 1, false))
			} else {
				create(pick(0, 1+next(5), false))
			}
		default:
			e := ents[next(len(ents))]
			rem, add, dok := draw(mask[e], k)
			if !dok {
				continue
			}
			apply(e, rem, add)
		}
		if step%64 == 0 {
			check("during the history")
		}
	}
	check("at the end")
	graphEdgeHits += hits
}

// graphEdgeHits counts the directed calls at capacity that graphEdgeCheck found (reported as a case class).
var graphEdgeHits int
