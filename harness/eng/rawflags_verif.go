//go:build verif

package eng

import (
	"reflect"
	"unsafe"

	"github.com/mlange-42/ark/ecs"
)

// typePtrBytes reads abi.Type.PtrBytes from the runtime type descriptor (see trivial_verif_test.go).
func typePtrBytes(tp reflect.Type) uintptr {
	type iface struct{ typ, data unsafe.Pointer }
	desc := (*iface)(unsafe.Pointer(&tp)).data
	return *(*uintptr)(unsafe.Add(desc, unsafe.Sizeof(uintptr(0))))
}

// checkRawFlags: after any history, no registered component type and no column of any table that holds a type with
// pointers may be flagged for raw memory copies (they bypass the garbage collector's write barriers; the damage shows
// only when a collection runs concurrently with a move, which a generated history of a few dozen entities rarely meets).
// The flag is per world and per ID, so it depends on the registration history (rolled-back registrations, Reset), not
// only on the type. One direction only, as in checkTrivial.
func checkRawFlags(w *ecs.World) {
	ecs.VerifRawCopyFlags(w, func(table, column int, tp reflect.Type, raw bool) {
		if raw && typePtrBytes(tp) != 0 {
			where := "the registry"
			if table >= 0 {
				where = "a table column"
			}
			fail("rawcopy|"+tp.String(), "component type %v contains pointers (runtime pointer map covers %d bytes) but %s of this world marks it for raw memory copies (table %d column %d)",
				tp, typePtrBytes(tp), where, table, column)
		}
	})
}
