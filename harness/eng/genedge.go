package eng

import (
	"github.com/mlange-42/ark/ecs"
)

// genEdgeCheck exercises entity generations at the edge of their 32-bit range, which no history of ordinary length
// reaches: a small world is dumped, every generation in the dump is lifted to just below the maximum (as in the dump of
// a world that has recycled its IDs billions of times), the dump is loaded into a new world, and every ID then goes
// through several remove / create cycles, across the wrap-around. Within the loaded world every removed handle must be
// dead at once and for good, every new handle must differ from all handles that world has issued or loaded, and the
// number of alive entities must be exact. A pure function of seed.
func genEdgeCheck(seed uint64) {
	x := seed*6364136223846793005 + 1442695040888963407
	next := func(n int) int {
		x = x*6364136223846793005 + 1442695040888963407
		return int((x >> 33) % uint64(n))
	}
	src := ecs.NewWorld(4)
	var hs []ecs.Entity
	n := 3 + next(5)
	for i := 0; i < n; i++ {
		hs = append(hs, src.NewEntity())
	}
	for i := 0; i < n; i++ {
		if next(3) == 0 {
			src.RemoveEntity(hs[i])
		}
	}
	for i := 0; i < next(3); i++ {
		src.NewEntity()
	}
	d := src.Unsafe().DumpEntities()
	lift := ^uint32(0) - uint32(1+next(4)) // the new generation of entries whose generation is 0
	for i := 2; i < len(d.Entities); i++ {
		e := d.Entities[i]
		d.Entities[i] = mkHandle(e.ID(), lift+e.Gen())
	}
	w := ecs.NewWorld(4)
	w.Unsafe().LoadEntities(&d)
	issued := map[ecs.Entity]bool{}
	alive := map[ecs.Entity]bool{}
	for _, id := range d.Alive {
		h := mkHandle(id, d.Entities[id].Gen())
		issued[h], alive[h] = true, true
		if !w.Alive(h) {
			fail("genedge|load|alive", "generation-edge seed %d: %v is alive in the dump but not in the loaded world", seed, h)
		}
	}
	check := func(where string) {
		for h := range issued {
			if w.Alive(h) != alive[h] {
				fail("genedge|alive", "generation-edge seed %d %s: Alive(%v)=%v, expected %v", seed, where, h, !alive[h], alive[h])
			}
		}
		cnt := 0
		for _, a := range alive {
			if a {
				cnt++
			}
		}
		if got := w.Stats().Entities.Used; got != cnt {
			fail("genedge|used", "generation-edge seed %d %s: Stats.Entities.Used=%d, expected %d", seed, where, got, cnt)
		}
	}
	for round := 0; round < 8; round++ {
		// remove some alive entities, then create as many
		var l []ecs.Entity
		for h, a := range alive {
			if a {
				l = append(l, h)
			}
		}
		sortEntities(l)
		removed := 0
		for _, h := range l {
			if next(2) == 0 {
				w.RemoveEntity(h)
				alive[h] = false
				removed++
			}
		}
		check("after removals")
		for i := 0; i < removed+next(2); i++ {
			h := w.NewEntity()
			if issued[h] {
				fail("genedge|duplicate", "generation-edge seed %d: NewEntity returned %v, a handle this world has issued before", seed, h)
			}
			issued[h], alive[h] = true, true
		}
		check("after creations")
	}
}

func sortEntities(l []ecs.Entity) {
	for i := 1; i < len(l); i++ {
		for j := i; j > 0 && (l[j].ID() < l[j-1].ID() || l[j].ID() == l[j-1].ID() && l[j].Gen() < l[j-1].Gen()); j-- {
			l[j], l[j-1] = l[j-1], l[j]
		}
	}
}
