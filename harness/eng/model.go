package eng

import (
	"arkverif/comps"
)

// Event types of the model (mapped to ecs.EventType by the backend).
const (
	EvCreate = iota
	EvRemoveEntity
	EvAddComps
	EvRemoveComps
	EvSetComps
	EvAddRels
	EvRemoveRels
	EvCustom0 // custom events EvCustom0, EvCustom0+1
	EvCustom1
	NumEv
)

var evNames = [NumEv]string{"OnCreateEntity", "OnRemoveEntity", "OnAddComponents", "OnRemoveComponents", "OnSetComponents", "OnAddRelations", "OnRemoveRelations", "Custom0", "Custom1"}

// RelSpec is a relation argument in an op: component (universe index) and target (entity serial, -1 = zero entity).
type RelSpec struct {
	C int `json:"c"`
	T int `json:"t"`
	S int `json:"s,omitempty"` // style: 0 RelIdx, 1 Rel[T], 2 RelID
}

// Ent is a model entity.
type Ent struct {
	Alive bool
	Mask  uint16
	Val   [comps.N]int64
	Tgt   [comps.N]int // target serial per relation component; -1 = zero entity
}

// FilterSpec describes a filter.
type FilterSpec struct {
	Inst       int       `json:"inst"` // index into FilterInsts; -1 = UnsafeFilter
	UComps     []int     `json:"ucomps,omitempty"`
	With       []int     `json:"with,omitempty"`
	Without    []int     `json:"without,omitempty"`
	Exclusive  bool      `json:"excl,omitempty"`
	Rels       []RelSpec `json:"rels,omitempty"`  // fixed relation targets
	Chain      bool      `json:"chain,omitempty"` // give the fixed targets in chained Relations() calls, one each
	Order      int       `json:"order,omitempty"` // order and splitting of the builder calls (With / Without / Exclusive / Relations)
	Registered bool      `json:"-"`
	Queried    bool      `json:"-"`
	Emptied    bool      `json:"-"` // a matching relation table was emptied while the filter was registered
	Epoch      int       `json:"-"` // numbering epoch (see Interp.epoch) in which the fixed targets were resolved
	Stale      bool      `json:"-"` // fixed target handle predates the last Reset: outside the domain
}

// List returns the component list of the filter in positional order (type params, then With).
func (f *FilterSpec) List() []int {
	var l []int
	if f.Inst >= 0 {
		l = append(l, FilterInsts[f.Inst].Comps...)
	} else {
		l = append(l, f.UComps...)
	}
	return append(l, f.With...)
}

// Mask returns the required components.
func (f *FilterSpec) Mask() uint16 { return maskOf(f.List()) }

// ObsSpec describes an observer.
type ObsSpec struct {
	Inst       int   `json:"inst"` // index into ObsInsts; -1 = plain Observer
	Ev         int   `json:"ev"`
	For        []int `json:"for,omitempty"` // extra For components (in addition to the type params)
	With       []int `json:"with,omitempty"`
	Without    []int `json:"without,omitempty"`
	Exclusive  bool  `json:"excl,omitempty"`
	UnregP1    int   `json:"unreg,omitempty"`   // 1 + index of the observer to unregister from inside the callback (0 = none)
	Order      int   `json:"order,omitempty"`   // order and splitting of the builder calls (For / With / Without / Exclusive)
	Reenter    bool  `json:"reenter,omitempty"` // the callback changes the world itself when it runs unlocked (net effect: none)
	Registered bool  `json:"-"`
	Dead       bool  `json:"-"` // removed by Reset
}

// C returns the observed components.
func (o *ObsSpec) C() uint16 {
	m := maskOf(o.For)
	if o.Inst >= 0 {
		m |= ObsInsts[o.Inst].Mask
	}
	return m
}

func maskOf(l []int) uint16 {
	var m uint16
	for _, c := range l {
		m |= 1 << uint(c)
	}
	return m
}

func listOf(m uint16) []int {
	var l []int
	for c := 0; c < comps.N; c++ {
		if m&(1<<uint(c)) != 0 {
			l = append(l, c)
		}
	}
	return l
}

// Emission is one event the model predicts an operation emits.
type Emission struct {
	Ev   int
	Ent  int    // serial, -1 = zero entity
	Old  uint16 // mask before
	New  uint16 // mask after (for entity events: the mask)
	Chg  uint16 // changed relations / set components / event components
	Kind int    // 0 entity(create/remove, rel-create/rel-remove), 1 add/remove transition, 2 set/setrel/custom
	Pre  bool   // emitted before the change
}

// Fires evaluates the documented predicate of observer o for emission em.
func (o *ObsSpec) Fires(em *Emission) bool {
	if o.Ev != em.Ev {
		return false
	}
	c := o.C()
	w := maskOf(o.With)
	x := maskOf(o.Without)
	switch em.Kind {
	case 0:
		m := em.New
		if o.Ev == EvCreate || o.Ev == EvRemoveEntity {
			w |= c
			c = 0
		}
		if o.Exclusive {
			x = ^w
		}
		return c&^m == 0 && w&^m == 0 && x&m == 0
	case 1:
		if o.Exclusive {
			x = ^w
		}
		if c != 0 {
			if o.Ev == EvAddComps || o.Ev == EvAddRels {
				if c&^em.New != 0 || c&em.Old != 0 {
					return false
				}
			} else {
				if c&^em.Old != 0 || c&em.New != 0 {
					return false
				}
			}
		}
		return w&^em.Old == 0 && x&em.Old == 0
	default:
		if o.Exclusive {
			x = ^w
		}
		if c != 0 && c&^em.Chg != 0 {
			return false
		}
		return w&^em.New == 0 && x&em.New == 0
	}
}

// Model is the reference model of one world.
type Model struct {
	Ents      []Ent
	Filters   []*FilterSpec
	Obs       []*ObsSpec
	Resources map[int]int64
	OpenQ     int // open queries
	Open      map[int]*mOpenQuery
	NextVal   int64
	Extra     int    // component types registered after the universe (op "register")
	Reg       uint16 // universe types registered so far
	LateReg   int    // universe types registered after the start of the case
}

// NewModel creates an empty model.
func NewModel() *Model {
	return &Model{Resources: map[int]int64{}}
}

// Clone copies the entity state (filters/observers are shared).
func (m *Model) CloneEnts() []Ent {
	c := make([]Ent, len(m.Ents))
	copy(c, m.Ents)
	return c
}

// Val draws the next payload.
func (m *Model) Val() int64 {
	m.NextVal++
	return m.NextVal
}

// AliveList returns the serials of all alive entities.
func (m *Model) AliveList() []int {
	var l []int
	for i := range m.Ents {
		if m.Ents[i].Alive {
			l = append(l, i)
		}
	}
	return l
}

// NumAlive counts alive entities.
func (m *Model) NumAlive() int {
	n := 0
	for i := range m.Ents {
		if m.Ents[i].Alive {
			n++
		}
	}
	return n
}

func (m *Model) alive(s int) bool { return s >= 0 && s < len(m.Ents) && m.Ents[s].Alive }

func (m *Model) targetOK(t int) bool {
	return t == -1 || (t >= 0 && t < len(m.Ents) && m.Ents[t].Alive)
}

// Matches evaluates filter f (plus per-query relations extra) for entity e.
func (m *Model) Matches(e *Ent, f *FilterSpec, extra []RelSpec) bool {
	return matchEnt(m.Ents, e, f, extra)
}

func matchEnt(ents []Ent, e *Ent, f *FilterSpec, extra []RelSpec) bool {
	if !e.Alive {
		return false
	}
	mask := f.Mask()
	if e.Mask&mask != mask {
		return false
	}
	if f.Exclusive {
		if e.Mask != mask {
			return false
		}
	} else if e.Mask&maskOf(f.Without) != 0 {
		return false
	}
	for _, r := range f.Rels {
		if r.T >= 0 && (r.T >= len(ents) || !ents[r.T].Alive) {
			return false // dead fixed target matches nothing
		}
		if e.Tgt[r.C] != r.T {
			return false
		}
	}
	for _, r := range extra {
		if e.Tgt[r.C] != r.T {
			return false
		}
	}
	return true
}

// Select returns the serials matching the filter, in serial order.
func (m *Model) Select(f *FilterSpec, extra []RelSpec) []int {
	var l []int
	for i := range m.Ents {
		if m.Matches(&m.Ents[i], f, extra) {
			l = append(l, i)
		}
	}
	return l
}

// Create adds an entity; vals may be nil (zero payloads).
func (m *Model) Create(list []int, vals []int64, rels []RelSpec) int {
	e := Ent{Alive: true}
	for i := range e.Tgt {
		e.Tgt[i] = -1
	}
	for i, c := range list {
		e.Mask |= 1 << uint(c)
		if vals != nil {
			e.Val[c] = comps.All[c].Norm(vals[i])
		}
	}
	for _, r := range rels {
		e.Tgt[r.C] = r.T
	}
	m.Ents = append(m.Ents, e)
	return len(m.Ents) - 1
}

// Exchange applies add/remove to entity s.
func (m *Model) Exchange(s int, add []int, vals []int64, rem []int, rels []RelSpec) {
	e := &m.Ents[s]
	for _, c := range rem {
		e.Mask &^= 1 << uint(c)
		e.Val[c] = 0
		e.Tgt[c] = -1
	}
	for i, c := range add {
		e.Mask |= 1 << uint(c)
		e.Val[c] = 0
		if vals != nil {
			e.Val[c] = comps.All[c].Norm(vals[i])
		}
	}
	for _, r := range rels {
		e.Tgt[r.C] = r.T
	}
}

// Kill removes entity s and detaches all relations pointing to it.
func (m *Model) Kill(s int) {
	m.Ents[s].Alive = false
	for i := range m.Ents {
		o := &m.Ents[i]
		if !o.Alive {
			continue
		}
		for c := 0; c < comps.N; c++ {
			if o.Mask&(1<<uint(c)) != 0 && o.Tgt[c] == s {
				o.Tgt[c] = -1
			}
		}
	}
}

// HasRelTargets reports whether the mask contains relation components.
func hasRel(mask uint16) bool { return mask&comps.RelMask != 0 }
