package eng

import (
	"encoding/json"
	"strings"
	"time"
)

// created returns how many entities op creates (when valid).
func created(op *Op) int {
	switch op.K {
	case "new", "copy":
		return 1
	case "newBatch":
		return op.N
	case "bulk":
		if op.Sub == "rel" {
			return 2 * op.N
		}
		return op.N
	}
	return 0
}

func cloneOps(ops []Op) []Op {
	b, _ := json.Marshal(ops)
	var out []Op
	_ = json.Unmarshal(b, &out)
	return out
}

// renumber shifts entity serials >= from by -n in ops (until the next reset).
func renumber(ops []Op, from, n int) {
	fix := func(s *int) {
		if *s >= from+n {
			*s -= n
		} else if *s >= from {
			*s = -9 // refers to a deleted entity
		}
	}
	for i := range ops {
		op := &ops[i]
		if op.K == "reset" {
			return
		}
		switch op.K {
		case "new", "newBatch", "bulk", "filterNew", "obsNew", "filterReg", "obsReg", "query", "shrink", "stats", "res", "qOpen", "qNext", "qClose":
		default:
			fix(&op.E)
		}
		for j := range op.Rels {
			if op.Rels[j].T >= 0 {
				fix(&op.Rels[j].T)
			}
		}
		for j := range op.QRels {
			if op.QRels[j].T >= 0 {
				fix(&op.QRels[j].T)
			}
		}
		if op.FS != nil {
			for j := range op.FS.Rels {
				if op.FS.Rels[j].T >= 0 {
					fix(&op.FS.Rels[j].T)
				}
			}
		}
		for j := range op.Acts {
			fix(&op.Acts[j].E)
		}
	}
}

func refsDeleted(ops []Op) bool {
	for i := range ops {
		op := &ops[i]
		if op.E == -9 {
			return true
		}
		for _, r := range op.Rels {
			if r.T == -9 {
				return true
			}
		}
		for _, r := range op.QRels {
			if r.T == -9 {
				return true
			}
		}
		if op.FS != nil {
			for _, r := range op.FS.Rels {
				if r.T == -9 {
					return true
				}
			}
		}
		for _, a := range op.Acts {
			if a.E == -9 {
				return true
			}
		}
	}
	return false
}

// tryReplay replays and reports whether the same violation signature occurs. Any other panic = not reproducing.
func tryReplay(pd *PropDef, cs *Case, sig string) (ok bool) {
	defer func() {
		if r := recover(); r != nil {
			ok = false
		}
	}()
	v := Replay(pd, cs)
	return v != nil && sigClass(v.Sig) == sigClass(sig)
}

// serialBase returns the serial the first entity created by ops[idx] gets (counting valid creations naively).
// It replays the model only, by running the real interpreter up to idx.
func serialBase(pd *PropDef, cs *Case, idx int) (base int, ok bool) {
	defer func() {
		if r := recover(); r != nil {
			ok = false
		}
	}()
	it := NewInterp(cs.Cfg, pd.Policies[:1], Options{})
	for i := 0; i < idx; i++ {
		it.Apply(&cs.Ops[i])
	}
	before := len(it.M.Ents)
	it.Apply(&cs.Ops[idx])
	if len(it.M.Ents) == before {
		return 0, false // the creation was invalid and created nothing
	}
	return before, true
}

// Minimize greedily deletes operations from the case while the same violation signature reproduces.
func Minimize(pd *PropDef, cs *Case, budget time.Duration) *Case {
	deadline := time.Now().Add(budget)
	sig := cs.Sig
	cur := &Case{Property: cs.Property, Profile: cs.Profile, Cfg: cs.Cfg, Ops: cloneOps(cs.Ops), Failure: cs.Failure, Sig: cs.Sig}
	if !tryReplay(pd, cur, sig) {
		return cs
	}
	// 1. truncate after the failing step: find the shortest failing prefix by trying to cut the tail
	for n := 1; n <= len(cur.Ops); n++ {
		if time.Now().After(deadline) {
			break
		}
		c := &Case{Property: cur.Property, Cfg: cur.Cfg, Ops: cur.Ops[:n]}
		if tryReplay(pd, c, sig) {
			cur.Ops = cloneOps(cur.Ops[:n])
			break
		}
	}
	// 2. delete chunks, then single ops, from the back
	for chunk := 8; chunk >= 1; chunk /= 2 {
		changed := true
		for changed && !time.Now().After(deadline) {
			changed = false
			for i := len(cur.Ops) - chunk; i >= 0; i-- {
				if time.Now().After(deadline) {
					break
				}
				if i+chunk > len(cur.Ops) {
					continue
				}
				cand := cloneOps(cur.Ops)
				// entity creations inside the chunk need renumbering of later references
				okc := true
				for j := i + chunk - 1; j >= i; j-- {
					if n := created(&cand[j]); n > 0 {
						base, ok := serialBase(pd, &Case{Cfg: cur.Cfg, Ops: cand}, j)
						if ok {
							renumber(cand[j+1:], base, n)
						}
					}
					if cand[j].K == "filterNew" || cand[j].K == "obsNew" || cand[j].K == "reset" || cand[j].K == "qOpen" {
						okc = false // indices of filters/observers/queries would shift
					}
				}
				if !okc {
					continue
				}
				cand = append(cand[:i], cand[i+chunk:]...)
				if refsDeleted(cand) {
					continue
				}
				c := &Case{Property: cur.Property, Cfg: cur.Cfg, Ops: cand}
				if tryReplay(pd, c, sig) {
					cur.Ops = cand
					changed = true
				}
			}
		}
	}
	// 3. simplify the configuration
	for _, f := range []func(c *Config){
		func(c *Config) { c.Filler = 0 },
		func(c *Config) { c.Perm = seq(16) },
	} {
		cfg := cur.Cfg
		cfg.Perm = append([]int{}, cfg.Perm...)
		f(&cfg)
		c := &Case{Property: cur.Property, Cfg: cfg, Ops: cur.Ops}
		if tryReplay(pd, c, sig) {
			cur.Cfg = cfg
		}
	}
	if v := Replay(pd, cur); v != nil {
		cur.Failure = v.Msg
		cur.Sig = v.Sig
	}
	return cur
}

// sigClass drops the op-kind field of a signature (oracle|op-kind|...|trigger): the same defect may surface one
// step earlier or later once operations are deleted.
func sigClass(sig string) string {
	f := strings.Split(sig, "|")
	if len(f) < 3 {
		return sig
	}
	return f[0] + "|" + f[len(f)-1]
}
