//go:build !verif

package eng

import "github.com/mlange-42/ark/ecs"

func checkRawFlags(w *ecs.World) {}
