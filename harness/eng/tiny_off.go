//go:build !ark_tiny

package eng

// MaskBits is the documented maximum number of component types of this build.
const MaskBits = 256
