package eng

import (
	"encoding/json"
	"reflect"

	"github.com/mlange-42/ark/ecs"
	"pgregory.net/rapid"
)

// genRoundtrip draws the final dump/load round-trip operation of a C17 case.
func (g *Gen) genRoundtrip(t *rapid.T) *Op {
	op := &Op{K: "roundtrip"}
	n := rapid.IntRange(1, 24).Draw(t, "lockstep")
	for i := 0; i < n; i++ {
		if rapid.IntRange(0, 2).Draw(t, "lockstepKind") == 0 {
			op.Acts = append(op.Acts, Op{K: "removeEntity", E: rapid.IntRange(0, 1000).Draw(t, "which")})
		} else {
			op.Acts = append(op.Acts, Op{K: "new"})
		}
	}
	return op
}

func freeList(d *ecs.EntityDump) []uint32 {
	var l []uint32
	next := d.Next
	for i := uint32(0); i < d.Available && int(next) < len(d.Entities); i++ {
		l = append(l, next)
		next = d.Entities[next].ID()
	}
	return l
}

func copyDump(d ecs.EntityDump) ecs.EntityDump {
	return ecs.EntityDump{Entities: append([]ecs.Entity{}, d.Entities...), Alive: append([]uint32{}, d.Alive...), Next: d.Next, Available: d.Available}
}

// opRoundtrip: dump the entity state of backend 0, load it into a fresh world; dump/reset/load backend 1;
// compare liveness of every handle ever issued, then create/remove in lock-step in all three worlds.
func (it *Interp) opRoundtrip(op *Op) {
	if it.locked() || len(it.B) < 2 {
		panic("bad op: roundtrip needs an unlocked world and two backends")
	}
	b0, b1 := it.B[0], it.B[1]
	// the lock-step phase below is not modelled: take the observers out first
	for _, b := range it.B {
		for j, on := range b.obsOn {
			if on {
				b.obs[j].Unregister(b.W)
				b.obsOn[j] = false
			}
		}
	}
	for _, o := range it.M.Obs {
		o.Registered = false
	}
	dump0 := b0.U.DumpEntities()
	snap := copyDump(dump0)
	fl := freeList(&dump0)
	if len(fl) >= 2 {
		asc := true
		for i := 1; i < len(fl); i++ {
			if fl[i] < fl[i-1] {
				asc = false
			}
		}
		if !asc {
			it.count("free-list-not-ascending")
		}
	}
	if len(b0.H) > 0 {
		if p := try(func() { b0.U.LoadEntities(&dump0) }); p == nil {
			fail("roundtrip|load|non-empty-accepted", "LoadEntities into a world that has issued entities did not panic")
		}
	}
	w2 := NewBackend("W2", b0.Cfg, Policy{})
	// loading changes the world: on a locked (fresh) world it is rejected and leaves nothing behind
	if len(dump0.Alive) > 0 {
		lq := w2.all.Query()
		p := try(func() { w2.U.LoadEntities(&dump0) })
		n := lq.Count()
		lq.Close()
		if p == nil || n != 0 || w2.W.Stats().Entities.Used != 0 {
			fail("roundtrip|load|locked-world", "LoadEntities on a locked fresh world: panic=%v, the open query now counts %d entities, Stats.Used=%d", p != nil, n, w2.W.Stats().Entities.Used)
		}
	}
	// a dump is made to be stored: every other case it goes through encoding/json before it is loaded
	if it.Step%2 == 0 {
		js, err := json.Marshal(dump0)
		var dj ecs.EntityDump
		if err == nil {
			err = json.Unmarshal(js, &dj)
		}
		if err != nil {
			fail("roundtrip|json|error", "EntityDump does not survive encoding/json: %v", err)
		}
		if len(dj.Entities) == 0 {
			dj.Entities = nil
		}
		if len(dj.Alive) == 0 {
			dj.Alive = nil
		}
		cmp := copyDump(dump0)
		if len(cmp.Entities) == 0 {
			cmp.Entities = nil
		}
		if len(cmp.Alive) == 0 {
			cmp.Alive = nil
		}
		if !reflect.DeepEqual(dj, cmp) {
			fail("roundtrip|json|differs", "EntityDump after a JSON round trip differs:\n%+v\n%+v", dj, cmp)
		}
		w2.U.LoadEntities(&dj)
		it.count("roundtrip-through-json")
	} else {
		w2.U.LoadEntities(&dump0)
	}
	dump1 := b1.U.DumpEntities()
	if !reflect.DeepEqual(dump0, dump1) {
		fail("roundtrip|dump|nondeterministic", "two worlds with the same history produce different dumps:\n%v\n%v", dump0, dump1)
	}
	b1.W.Reset()
	b1.U.LoadEntities(&dump1)
	alive := []ecs.Entity{}
	for s := range it.M.Ents {
		h := b0.H[s]
		want := it.M.Ents[s].Alive
		if b1.H[s] != h {
			fail("roundtrip|handles|differ", "backends issued different handles for #%d: %v %v", s, h, b1.H[s])
		}
		for _, w := range []*Backend{b0, b1, w2} {
			if w.W.Alive(h) != want {
				fail("roundtrip|alive|"+w.Name, "%s: Alive(%v)=%v after load, source world %v (dump next=%d available=%d)", w.Name, h, !want, want, dump0.Next, dump0.Available)
			}
		}
		if want {
			alive = append(alive, h)
		}
	}
	// "every handle": sweep the whole handle space of the dump (every ID of the pool, including the two reserved ones,
	// with the stored generation, its neighbours and the extreme generations); handles are built through the codec
	sweep := 0
	for id := 0; id < len(snap.Entities); id++ {
		g := snap.Entities[id].Gen()
		for _, gen := range []uint32{0, 1, g - 1, g, g + 1, ^uint32(0)} {
			h := mkHandle(uint32(id), gen)
			want, wp := aliveOrPanic(b0.W, h)
			for _, w := range []*Backend{b1, w2} {
				got, gp := aliveOrPanic(w.W, h)
				if got != want || gp != wp {
					fail("roundtrip|alive-sweep|"+w.Name, "%s: Alive(%v)=%v (panic %v) after load, source world %v (panic %v)", w.Name, h, got, gp, want, wp)
				}
			}
			sweep++
		}
	}
	it.countN("roundtrip-handles-swept", sweep)
	for _, w := range []*Backend{b1, w2} {
		st := w.W.Stats()
		if st.Entities.Used != len(alive) || st.Entities.Recycled != int(dump0.Available) {
			fail("roundtrip|stats|"+w.Name, "%s: after load Stats.Entities=%+v, expected used %d recycled %d", w.Name, st.Entities, len(alive), dump0.Available)
		}
		q := w.all.Query()
		if q.Count() != len(alive) {
			q.Close()
			fail("roundtrip|count|"+w.Name, "%s: after load a Filter0 query counts %d entities, expected %d", w.Name, q.Count(), len(alive))
		}
		seen := map[ecs.Entity]bool{}
		for q.Next() {
			if seen[q.Entity()] || !w.W.Alive(q.Entity()) {
				q.Close()
				fail("roundtrip|query|"+w.Name, "%s: after load a query yields %v twice or dead", w.Name, q.Entity())
			}
			seen[q.Entity()] = true
			if ids := w.U.IDs(q.Entity()); ids.Len() != 0 {
				q.Close()
				fail("roundtrip|components|"+w.Name, "%s: loaded entity %v has components", w.Name, q.Entity())
			}
		}
	}
	// lock-step continuation
	for i := range op.Acts {
		a := &op.Acts[i]
		if a.K == "removeEntity" {
			if len(alive) == 0 {
				continue
			}
			k := a.E % len(alive)
			h := alive[k]
			alive = append(alive[:k], alive[k+1:]...)
			for _, w := range []*Backend{b0, b1, w2} {
				if p := try(func() { w.W.RemoveEntity(h) }); p != nil {
					fail("roundtrip|lockstep|remove-"+w.Name, "%s: RemoveEntity(%v) panicked after load: %v", w.Name, h, p)
				}
			}
			continue
		}
		var hs [3]ecs.Entity
		for j, w := range []*Backend{b0, b1, w2} {
			if p := try(func() { hs[j] = w.W.NewEntity() }); p != nil {
				fail("roundtrip|lockstep|new-"+w.Name, "%s: NewEntity panicked after load: %v", w.Name, p)
			}
		}
		if hs[0] != hs[1] || hs[0] != hs[2] {
			fail("roundtrip|lockstep|handles", "lock-step creation %d returned %v (source), %v (reset+load), %v (fresh+load); free list at dump %v", i, hs[0], hs[1], hs[2], fl)
		}
		for _, h := range alive {
			if h == hs[0] {
				fail("roundtrip|lockstep|duplicate", "lock-step creation returned alive handle %v", h)
			}
		}
		alive = append(alive, hs[0])
	}
	for _, w := range []*Backend{b0, b1, w2} {
		for _, h := range alive {
			if !w.W.Alive(h) {
				fail("roundtrip|lockstep|alive-"+w.Name, "%s: %v not alive at the end of the lock-step phase", w.Name, h)
			}
		}
		if n := w.W.Stats().Entities.Used; n != len(alive) {
			fail("roundtrip|lockstep|used-"+w.Name, "%s: Stats.Used=%d at the end of the lock-step phase, expected %d", w.Name, n, len(alive))
		}
	}
	if !reflect.DeepEqual(dump0, snap) {
		fail("roundtrip|dump|aliased", "the dump changed when the source world was modified afterwards")
	}
	it.count("roundtrip")
	it.done = true
}

// mkHandle builds an arbitrary handle through the binary codec (the only public way to do so).
func mkHandle(id, gen uint32) ecs.Entity {
	var e ecs.Entity
	buf := []byte{byte(id >> 24), byte(id >> 16), byte(id >> 8), byte(id), byte(gen >> 24), byte(gen >> 16), byte(gen >> 8), byte(gen)}
	if err := e.UnmarshalBinary(buf); err != nil {
		panic(err)
	}
	return e
}

func aliveOrPanic(w *ecs.World, h ecs.Entity) (alive bool, panicked bool) {
	defer func() {
		if recover() != nil {
			panicked = true
		}
	}()
	return w.Alive(h), false
}
