package eng

import (
	"arkverif/comps"

	"github.com/mlange-42/ark/ecs"
	"pgregory.net/rapid"
)

// opRead performs a checked read; it must panic iff the handle is not alive (or the component is missing where
// the call is documented to require it).
func (it *Interp) opRead(op *Op) {
	c := op.Comps[0]
	alive := it.alive(op.E)
	var e *Ent
	has := false
	if alive {
		e = &it.M.Ents[op.E]
		has = e.Mask&(1<<uint(c)) != 0
	}
	mp := op.M
	pos := 0
	if op.Mode == 9 {
		pos = op.N % len(MapInsts[mp].Comps)
		if alive {
			has = e.Mask&(1<<uint(MapInsts[mp].Comps[pos])) != 0
		}
	}
	valid := alive
	switch op.Mode {
	case 0, 2, 8, 9, 10, 11:
		valid = alive && has
	}
	if op.Mode == 11 {
		pos = op.N % len(MapInsts[mp].Comps)
		if alive {
			valid = e.Mask&(1<<uint(MapInsts[mp].Comps[pos])) != 0
		}
	}
	if (op.Mode == 10 || op.Mode == 11) && !alive {
		panic("bad op: unchecked accessors are only generated for alive entities")
	}
	it.count("read-call-" + readNames[op.Mode])
	if !alive {
		it.count("misuse-stale-read")
	}
	it.run(op, valid, func(b *Backend) {
		h := b.handle(op.E)
		switch op.Mode {
		case 0:
			p := b.U.Get(h, b.IDs[c])
			if v := comps.GetV(c, p); v != e.Val[c] {
				fail("state|read|value", "%s step %d: Unsafe.Get(#%d,%s) holds %d, model %d", b.Name, it.Step, op.E, comps.All[c].Name, v, e.Val[c])
			}
		case 1:
			if b.U.Has(h, b.IDs[c]) != has {
				fail("state|read|has", "%s step %d: Unsafe.Has(#%d,%s) wrong", b.Name, it.Step, op.E, comps.All[c].Name)
			}
		case 2:
			t := b.U.GetRelation(h, b.IDs[c])
			want := ecs.Entity{}
			if comps.All[c].Relation {
				want = b.handle(e.Tgt[c])
			}
			if t != want {
				fail("state|read|target", "%s step %d: Unsafe.GetRelation(#%d,%s)=%v, model %v", b.Name, it.Step, op.E, comps.All[c].Name, t, want)
			}
		case 3:
			ids := b.U.IDs(h)
			if ids.Len() != len(listOf(e.Mask)) {
				fail("state|read|ids", "%s step %d: Unsafe.IDs(#%d) has %d entries, model %s", b.Name, it.Step, op.E, ids.Len(), names(e.Mask))
			}
		case 4:
			p := b.Mapper(c).Get(h)[0]
			if (p != nil) != has {
				fail("state|read|map-get", "%s step %d: Map[%s].Get(#%d) nil=%v, model has=%v", b.Name, it.Step, comps.All[c].Name, op.E, p == nil, has)
			}
		case 5:
			if b.Mapper(c).HasAll(h) != has {
				fail("state|read|map-has", "%s step %d: Map[%s].Has(#%d) wrong", b.Name, it.Step, comps.All[c].Name, op.E)
			}
		case 6:
			b.checkMapperGet("state|read", mp, op.E, e, "read")
		case 7:
			m := MapInsts[mp].Mask
			if b.Mapper(mp).HasAll(h) != (e.Mask&m == m) {
				fail("state|read|hasall", "%s step %d: %s.HasAll(#%d) wrong", b.Name, it.Step, MapInsts[mp].Name, op.E)
			}
		case 8:
			t := b.Mapper(c).GetRelation(h, 0)
			want := ecs.Entity{}
			if comps.All[c].Relation {
				want = b.handle(e.Tgt[c])
			}
			if t != want {
				fail("state|read|map-target", "%s step %d: Map[%s].GetRelation(#%d)=%v, model %v", b.Name, it.Step, comps.All[c].Name, op.E, t, want)
			}
		case 10:
			t := b.Mapper(c).GetRelationUnchecked(h, 0)
			want := ecs.Entity{}
			if comps.All[c].Relation {
				want = b.handle(e.Tgt[c])
			}
			if t != want {
				fail("state|read|map-target-unchecked", "%s step %d: Map[%s].GetRelationUnchecked(#%d)=%v, model %v", b.Name, it.Step, comps.All[c].Name, op.E, t, want)
			}
		case 11:
			cc := MapInsts[mp].Comps[pos]
			t := b.Mapper(mp).GetRelationUnchecked(h, pos)
			want := ecs.Entity{}
			if comps.All[cc].Relation {
				want = b.handle(e.Tgt[cc])
			}
			if t != want {
				fail("state|read|mapn-target-unchecked", "%s step %d: %s.GetRelationUnchecked(#%d,%d)=%v, model %v", b.Name, it.Step, MapInsts[mp].Name, op.E, pos, t, want)
			}
		case 9:
			cc := MapInsts[mp].Comps[pos]
			t := b.Mapper(mp).GetRelation(h, pos)
			want := ecs.Entity{}
			if comps.All[cc].Relation {
				want = b.handle(e.Tgt[cc])
			}
			if t != want {
				fail("state|read|mapn-target", "%s step %d: %s.GetRelation(#%d,%d)=%v, model %v", b.Name, it.Step, MapInsts[mp].Name, op.E, pos, t, want)
			}
		}
	})
}

var readNames = []string{"Unsafe.Get", "Unsafe.Has", "Unsafe.GetRelation", "Unsafe.IDs", "Map.Get", "Map.Has", "MapN.Get", "MapN.HasAll", "Map.GetRelation", "MapN.GetRelation", "Map.GetRelationUnchecked", "MapN.GetRelationUnchecked"}

// staleClass classifies a non-alive handle for the evidence: zero entity, dead with the ID unused, or dead with
// the ID alive again under a newer generation.
func (it *Interp) staleClass(s int) string {
	if s < 0 {
		return "zero-entity"
	}
	b := it.B[0]
	if s >= len(b.H) {
		return "unknown"
	}
	id := b.H[s].ID()
	for t, e := range it.M.Ents {
		if e.Alive && b.H[t].ID() == id {
			return "dead-id-reused"
		}
	}
	return "dead-id-free"
}

// genMisuse draws an operation that violates exactly one documented precondition.
func (g *Gen) genMisuse(t *rapid.T) *Op {
	m := g.m()
	var dead []int
	for s := range m.Ents {
		if !m.Ents[s].Alive {
			dead = append(dead, s)
		}
	}
	alive := m.AliveList()
	class := rapid.SampledFrom([]string{"stale", "stale", "stale", "dup-add", "remove-missing", "empty", "omitted-target", "dead-target", "batch", "dead-target-query", "bad-observer", "register-locked"}).Draw(t, "misuseClass")
	if class == "register-locked" {
		// first use of a component type on a locked world: rejected, and the registration is rolled back; whatever is
		// registered next gets the ID
		if !g.It.locked() {
			class = "stale"
		} else {
			op := &Op{K: "regLocked", E: -1, Sub: class}
			if un := listOf(0xffff &^ m.Reg); len(un) > 0 && m.Reg != 0 && rapid.Bool().Draw(t, "universeType") {
				op.E = rapid.SampledFrom(un).Draw(t, "unregistered")
			}
			return op
		}
	}
	if class == "bad-observer" {
		// a relation observer that observes a non-relation component: Register panics and nothing is registered
		ev := rapid.SampledFrom([]int{EvAddRels, EvRemoveRels}).Draw(t, "relEvent")
		c := rapid.SampledFrom(listOf(0xffff&^comps.RelMask)).Draw(t, "nonRelation")
		return &Op{K: "obsBad", Mode: ev, Comps: []int{c}, Sub: class}
	}
	if class == "dead-target-query" {
		// a typed filter with a free relation component, queried or used for a batch with a removed entity as target
		var l []int
		for i, f := range m.Filters {
			if f.Inst >= 0 && !f.Stale && len(g.qrelComps(f)) > 0 {
				l = append(l, i)
			}
		}
		if len(l) > 0 && len(dead) > 0 && m.OpenQ < 60 {
			fi := rapid.SampledFrom(l).Draw(t, "filter")
			free := g.qrelComps(m.Filters[fi])
			c := rapid.SampledFrom(free).Draw(t, "relComp")
			op := &Op{K: "queryDeadTarget", F: fi, Mode: rapid.IntRange(0, 1).Draw(t, "viaBatch"), Sub: class}
			for _, fc := range free {
				if fc == c {
					op.QRels = append(op.QRels, RelSpec{C: c, T: rapid.SampledFrom(dead).Draw(t, "deadTarget"), S: rapid.IntRange(0, 2).Draw(t, "relStyle")})
				} else if rapid.Bool().Draw(t, "otherRelToo") {
					// further relations with valid targets: the multi-relation code path
					op.QRels = append(op.QRels, RelSpec{C: fc, T: g.pickTarget(t), S: rapid.IntRange(0, 2).Draw(t, "relStyle")})
				}
			}
			return op
		}
		class = "stale"
	}
	if class == "batch" {
		if op := g.genBatchMisuse(t); op != nil {
			op.Sub = "batch"
			return op
		}
		class = "stale"
	}
	if len(alive) == 0 && class != "stale" {
		class = "stale"
	}
	if class == "dead-target" && len(dead) == 0 {
		class = "stale"
	}
	var op *Op
	switch class {
	case "stale":
		s := -1
		if len(dead) > 0 && rapid.IntRange(0, 4).Draw(t, "zeroHandle") != 0 {
			// prefer dead handles whose ID is alive again
			s = rapid.SampledFrom(dead).Draw(t, "deadEntity")
		}
		base := rapid.SampledFrom([]string{"add", "add", "remove", "remove", "exchange", "set", "setRel", "removeEntity", "copy", "read", "read", "emit"}).Draw(t, "staleBase")
		// build the op as if for a plausible entity shape, then point it at the stale handle
		switch base {
		case "add":
			op = g.staleAdd(t)
		case "remove":
			op = g.staleRemove(t)
		case "exchange":
			op = &Op{K: "exchange", P: PUnsafe, Mode: 2, Comps: subset(t, 0xffff&^comps.RelMask, 1, 2, "add")}
			if rapid.Bool().Draw(t, "typed") {
				op = &Op{K: "exchange", P: PEx, M: rapid.IntRange(0, len(ExInsts)-1).Draw(t, "exchanger")}
				op.Comps = ExInsts[op.M].Comps
				op.Rels = g.relsFor(t, op.Comps)
				op.Init = drawInit(t)
				op.Vals = g.vals(len(op.Comps))
			}
		case "set":
			op = &Op{K: "set", P: PMap, M: rapid.IntRange(0, len(MapInsts)-1).Draw(t, "mapper")}
			op.Vals = g.vals(len(MapInsts[op.M].Comps))
		case "setRel":
			op = &Op{K: "setRel", P: PUnsafe, Rels: []RelSpec{{C: comps.IR1 + rapid.IntRange(0, 2).Draw(t, "rel"), T: g.pickTarget(t), S: 2}}}
			if rapid.Bool().Draw(t, "typed") {
				op.P = PMap
				op.M = op.Rels[0].C
				if rapid.Bool().Draw(t, "map1") {
					op.M += comps.N
				}
			}
		case "removeEntity":
			op = &Op{K: "removeEntity"}
		case "copy":
			op = &Op{K: "copy"}
		case "read":
			op = g.genRead(t)
			if op.Mode >= 10 {
				op.Mode -= 2 // the checked variants; unchecked accessors are not defined for dead handles
			}
		case "emit":
			op = &Op{K: "emit", Mode: rapid.SampledFrom([]int{EvCustom0, EvCustom1}).Draw(t, "event")}
			if s < 0 {
				op.Comps = []int{rapid.IntRange(0, comps.N-1).Draw(t, "evComp")} // components for the zero entity are rejected
			}
		}
		op.E = s
	case "dup-add":
		s := rapid.SampledFrom(alive).Draw(t, "entity")
		e := &m.Ents[s]
		if e.Mask == 0 {
			return g.genAdd(t, s)
		}
		op = g.genAdd(t, s)
		if op.K != "add" {
			return op
		}
		present := rapid.SampledFrom(listOf(e.Mask)).Draw(t, "present")
		if op.P == PUnsafe && len(op.Comps) > 0 && rapid.IntRange(0, 2).Draw(t, "twiceInOneCall") == 0 {
			// "... or it was added twice": a component the entity lacks, named twice in one call
			present = rapid.SampledFrom(op.Comps).Draw(t, "twice")
			if rapid.IntRange(0, 3).Draw(t, "viaNewEntity") == 0 {
				nc := append(append([]int{}, op.Comps...), present)
				op = &Op{K: "new", P: PUnsafe, Comps: nc, Rels: op.Rels, Mode: op.Mode, Sub: "dup-add"}
				for _, c := range nc {
					_ = c
				}
				return op
			}
		}
		if op.P == PUnsafe {
			pos := rapid.IntRange(0, len(op.Comps)).Draw(t, "dupPos")
			nc := append([]int{}, op.Comps[:pos]...)
			nc = append(nc, present)
			nc = append(nc, op.Comps[pos:]...)
			op.Comps = nc
			if op.Vals != nil {
				op.Vals = g.vals(len(nc))
			}
			if comps.All[present].Relation {
				op.Rels = append(op.Rels, RelSpec{C: present, T: -1, S: 2})
				if op.Mode == 0 {
					op.Mode = 1
				}
			}
		} else {
			// a typed mapper that overlaps the entity's components
			var l []int
			for i := range MapInsts {
				if MapInsts[i].Mask&e.Mask != 0 {
					l = append(l, i)
				}
			}
			op = &Op{K: "add", E: s, P: PMap, M: rapid.SampledFrom(l).Draw(t, "mapper"), Init: drawInit(t)}
			op.Comps = MapInsts[op.M].Comps
			op.Rels = g.relsFor(t, op.Comps)
			op.Vals = g.vals(len(op.Comps))
		}
	case "remove-missing":
		s := rapid.SampledFrom(alive).Draw(t, "entity")
		e := &m.Ents[s]
		missing := rapid.SampledFrom(listOf(^e.Mask|1<<15)).Draw(t, "missing")
		if e.Mask&(1<<uint(missing)) != 0 {
			return g.genRemove(t, s)
		}
		op = &Op{K: "remove", E: s, P: PUnsafe}
		op.Rem = append(subset(t, e.Mask, 0, 2, "rem"), missing)
		op.Rem = rapid.Permutation(op.Rem).Draw(t, "remOrder")
		if rapid.Bool().Draw(t, "typed") {
			var l []int
			for i := range MapInsts {
				if MapInsts[i].Mask&^e.Mask != 0 {
					l = append(l, i)
				}
			}
			op = &Op{K: "remove", E: s, P: PMap, M: rapid.SampledFrom(l).Draw(t, "mapper")}
			op.Rem = MapInsts[op.M].Comps
		}
	case "empty":
		s := rapid.SampledFrom(alive).Draw(t, "entity")
		switch rapid.IntRange(0, 3).Draw(t, "emptyKind") {
		case 0:
			op = &Op{K: "add", E: s, P: PUnsafe, Mode: rapid.IntRange(0, 1).Draw(t, "variant")}
		case 1:
			op = &Op{K: "remove", E: s, P: PUnsafe}
		case 2:
			op = &Op{K: "exchange", E: s, P: PUnsafe, Mode: 2}
		default:
			op = &Op{K: "setRel", E: s, P: PUnsafe}
		}
	case "omitted-target":
		s := rapid.SampledFrom(alive).Draw(t, "entity")
		e := &m.Ents[s]
		free := ^e.Mask & comps.RelMask
		if free == 0 || rapid.Bool().Draw(t, "onNew") {
			// creation with an omitted target
			op = g.genNew(t)
			if len(op.Rels) == 0 {
				op = &Op{K: "new", P: PUnsafe, Comps: []int{comps.ICA, comps.IR2}, Mode: rapid.IntRange(0, 1).Draw(t, "variant")}
			} else {
				op.Rels = op.Rels[:len(op.Rels)-1]
			}
		} else {
			rc := rapid.SampledFrom(listOf(free)).Draw(t, "relComp")
			op = &Op{K: "add", E: s, P: PUnsafe, Comps: []int{rc}, Mode: rapid.IntRange(0, 1).Draw(t, "variant")}
			if rapid.Bool().Draw(t, "typed") {
				op = &Op{K: "add", E: s, P: PMap, M: rc, Comps: []int{rc}, Init: drawInit(t), Vals: g.vals(1)}
				if rapid.Bool().Draw(t, "map1") {
					op.M += comps.N
				}
			}
		}
	case "dead-target":
		d := rapid.SampledFrom(dead).Draw(t, "deadTarget")
		kind := rapid.IntRange(0, 3).Draw(t, "deadTargetOp")
		if kind == 3 {
			// a remove-only Exchange through the ID-based API that names a removed entity as target of a relation the
			// entity keeps
			var cand []int
			for _, s := range alive {
				e := &m.Ents[s]
				if e.Mask&comps.RelMask != 0 && e.Mask&^comps.RelMask != 0 {
					cand = append(cand, s)
				}
			}
			if len(cand) == 0 {
				kind = 1
			} else {
				s := rapid.SampledFrom(cand).Draw(t, "entity")
				e := &m.Ents[s]
				r := rapid.SampledFrom(listOf(e.Mask&comps.RelMask)).Draw(t, "keptRelation")
				c := rapid.SampledFrom(listOf(e.Mask&^comps.RelMask)).Draw(t, "removed")
				op = &Op{K: "exchange", P: PUnsafe, E: s, Rem: []int{c}, Mode: 2, Rels: []RelSpec{{C: r, T: d, S: 2}}}
				op.Sub = class
				return op
			}
		}
		switch kind {
		case 0:
			op = g.genSetRel(t)
			if op.K != "setRel" {
				op.Rels[0].T = d
			} else {
				op.Rels[rapid.IntRange(0, len(op.Rels)-1).Draw(t, "which")].T = d
			}
		case 1:
			rc := comps.IR1 + rapid.IntRange(0, 2).Draw(t, "rel")
			op = &Op{K: "new", P: PUnsafe, Comps: []int{rc}, Rels: []RelSpec{{C: rc, T: d, S: 2}}}
			if rapid.Bool().Draw(t, "typed") {
				op = &Op{K: "new", P: PMap, M: rc + comps.N*rapid.IntRange(0, 1).Draw(t, "map1"), Comps: []int{rc}, Rels: []RelSpec{{C: rc, T: d, S: rapid.IntRange(0, 2).Draw(t, "style")}}, Init: drawInit(t), Vals: g.vals(1)}
			}
		default:
			s := rapid.SampledFrom(alive).Draw(t, "entity")
			e := &m.Ents[s]
			free := ^e.Mask & comps.RelMask
			if free == 0 {
				op = &Op{K: "new", P: PUnsafe, Comps: []int{comps.IR1}, Rels: []RelSpec{{C: comps.IR1, T: d, S: 2}}}
			} else {
				rc := rapid.SampledFrom(listOf(free)).Draw(t, "relComp")
				op = &Op{K: "add", E: s, P: PUnsafe, Comps: []int{rc}, Rels: []RelSpec{{C: rc, T: d, S: 2}}, Mode: 1}
			}
		}
	}
	op.Sub = class
	return op
}

func (g *Gen) staleAdd(t *rapid.T) *Op {
	if rapid.Bool().Draw(t, "unsafe") {
		op := &Op{K: "add", P: PUnsafe, Comps: subset(t, 0xffff, 1, 3, "comps")}
		op.Rels = g.relsFor(t, op.Comps)
		for i := range op.Rels {
			op.Rels[i].S = 2
		}
		if len(op.Rels) > 0 {
			op.Mode = 1
		}
		return op
	}
	op := &Op{K: "add", P: PMap, M: pickByArity(t, seq(len(MapInsts)), mapArity, "mapper"), Init: drawInit(t)}
	if rapid.IntRange(0, 3).Draw(t, "viaExchange") == 0 {
		op.P = PEx
		op.M = rapid.IntRange(0, len(ExInsts)-1).Draw(t, "exchanger")
		op.Comps = ExInsts[op.M].Comps
	} else {
		op.Comps = MapInsts[op.M].Comps
	}
	op.Rels = g.relsFor(t, op.Comps)
	op.Vals = g.vals(len(op.Comps))
	return op
}

func (g *Gen) staleRemove(t *rapid.T) *Op {
	switch rapid.IntRange(0, 2).Draw(t, "path") {
	case 0:
		return &Op{K: "remove", P: PUnsafe, Rem: subset(t, 0xffff, 1, 2, "rem")}
	case 1:
		m := pickByArity(t, seq(len(MapInsts)), mapArity, "mapper")
		return &Op{K: "remove", P: PMap, M: m, Rem: MapInsts[m].Comps}
	}
	m := rapid.IntRange(0, len(ExInsts)-1).Draw(t, "exchanger")
	return &Op{K: "remove", P: PEx, M: m, Rem: subset(t, 0xffff&^ExInsts[m].Mask, 1, 2, "rem")}
}

// genBatchMisuse draws a batch operation that is not applicable to at least one selected entity (duplicate add,
// removal of a missing component, relation change on a missing component, omitted relation target).
// Returns nil if the current state offers none.
func (g *Gen) genBatchMisuse(t *rapid.T) *Op {
	m := g.m()
	if g.It.locked() {
		return nil
	}
	type cand struct {
		fi  int
		sel []int
	}
	var cs []cand
	for i, f := range m.Filters {
		if f.Inst < 0 || f.Stale {
			continue
		}
		if sel := m.Select(f, nil); len(sel) > 0 {
			cs = append(cs, cand{i, sel})
		}
	}
	if len(cs) == 0 {
		return nil
	}
	c := rapid.SampledFrom(cs).Draw(t, "batchFilter")
	var union uint16
	common := uint16(0xffff)
	for _, s := range c.sel {
		union |= m.Ents[s].Mask
		common &= m.Ents[s].Mask
	}
	switch rapid.IntRange(0, 3).Draw(t, "batchMisuseKind") {
	case 0: // duplicate add for some entity
		if union == 0 {
			return nil
		}
		comp := rapid.SampledFrom(listOf(union)).Draw(t, "presentComp")
		op := &Op{K: "addBatch", F: c.fi, P: PMap, M: comp + comps.N*rapid.IntRange(0, 1).Draw(t, "map1"), Comps: []int{comp}, Init: drawInit(t), Vals: g.vals(1)}
		op.Rels = g.relsFor(t, op.Comps)
		return op
	case 1: // removal of a component some entity lacks
		missing := ^common
		if missing == 0 {
			return nil
		}
		comp := rapid.SampledFrom(listOf(missing)).Draw(t, "missingComp")
		return &Op{K: "removeBatch", F: c.fi, P: PMap, M: comp + comps.N*rapid.IntRange(0, 1).Draw(t, "map1"), Rem: []int{comp}, Fn: rapid.Bool().Draw(t, "fn")}
	case 2: // relation change on a component some entity lacks
		missing := ^common & comps.RelMask
		if missing == 0 {
			return nil
		}
		comp := rapid.SampledFrom(listOf(missing)).Draw(t, "missingRel")
		return &Op{K: "setRelBatch", F: c.fi, P: PMap, M: comp + comps.N*rapid.IntRange(0, 1).Draw(t, "map1"), Rels: []RelSpec{{C: comp, T: g.pickTarget(t), S: 1}}, Fn: rapid.Bool().Draw(t, "fn")}
	default: // relation component added without target
		free := ^union & comps.RelMask
		if free == 0 {
			return nil
		}
		comp := rapid.SampledFrom(listOf(free)).Draw(t, "relComp")
		return &Op{K: "addBatch", F: c.fi, P: PMap, M: comp + comps.N*rapid.IntRange(0, 1).Draw(t, "map1"), Comps: []int{comp}, Init: drawInit(t), Vals: g.vals(1)}
	}
}

// qrelComps lists the relation components of a filter that have no fixed target.
func (g *Gen) qrelComps(f *FilterSpec) []int {
	fixed := uint16(0)
	for _, r := range f.Rels {
		fixed |= 1 << uint(r.C)
	}
	return listOf(f.Mask() & comps.RelMask &^ fixed)
}

// opQueryDeadTarget: a typed Query(rel...) / Batch(rel...) naming a removed entity as target must panic and must not
// leave the world locked.
func (it *Interp) opQueryDeadTarget(op *Op) {
	f := it.M.Filters[op.F]
	anyDead := false
	for _, r := range op.QRels {
		if !it.M.targetOK(r.T) {
			anyDead = true
		}
	}
	if !anyDead {
		panic("bad op: queryDeadTarget without a dead target")
	}
	it.run(op, false, func(b *Backend) {
		if op.Mode == 1 {
			_ = b.flt[op.F].Batch(b.rels(f.List(), op.QRels))
			return
		}
		q := b.flt[op.F].Query(b.rels(f.List(), op.QRels))
		q.Close()
	})
	// The ID-based filter does not check its targets. No entity has a removed entity as target, so such a query either
	// panics or is empty - also when the ID of the removed entity is in use again (by an entity that is itself a target).
	for _, b := range it.B {
		for _, r := range op.QRels {
			if it.M.targetOK(r.T) {
				continue
			}
			id := b.IDs[r.C]
			dead := b.handle(r.T)
			var n, cnt int
			var first ecs.Entity
			p := try(func() {
				q := ecs.NewUnsafeFilter(b.W, id).Query(ecs.RelID(id, dead))
				cnt = q.Count()
				for q.Next() {
					if n == 0 {
						first = q.Entity()
					}
					n++
				}
			})
			if b.W.IsLocked() != (it.M.OpenQ > 0) {
				fail("query|dead-target|unsafe-lock", "%s step %d: an ID-based query with the removed target %v left the world locked (panic: %v)", b.Name, it.Step, dead, p)
			}
			// "Panics if used with an index Relation": an ID-based query with RelIdx is rejected, and the rejected query
			// holds no lock afterwards
			pi := try(func() {
				q := ecs.NewUnsafeFilter(b.W, id).Query(ecs.RelIdx(0, b.wildcardOrAlive(it)))
				q.Close()
			})
			if pi == nil {
				fail("query|unsafe-relidx|accepted", "%s step %d: an ID-based query with a RelIdx relation did not panic", b.Name, it.Step)
			}
			if b.W.IsLocked() != (it.M.OpenQ > 0) {
				fail("query|unsafe-relidx|lock", "%s step %d: a rejected ID-based query (RelIdx relation) left the world locked", b.Name, it.Step)
			}
			if p == nil && (n != 0 || cnt != 0) {
				fail("query|dead-target|unsafe-yields", "%s step %d: ID-based query for %s with the removed entity %v as target counts %d and visits %d entities (first %v)", b.Name, it.Step, comps.All[r.C].Name, dead, cnt, n, first)
			}
			it.count("unsafe-query-with-dead-target")
			if it.staleClass(r.T) == "dead-id-reused" {
				it.count("unsafe-query-with-dead-target-id-recycled")
			}
		}
	}
}

// opObsBad: registering an OnAddRelations / OnRemoveRelations observer for a non-relation component is rejected; the
// world has as many observers afterwards as before, and the rejected observer never fires.
func (it *Interp) opObsBad(op *Op) {
	it.run(op, false, func(b *Backend) {
		o := ecs.Observe(b.evT[op.Mode]).For(compsOf(op.Comps)...).Do(func(e ecs.Entity) {
			fail("events|obsBad|fired", "%s: an observer whose registration was rejected fired for %v", b.Name, e)
		})
		o.Register(b.W)
	})
	it.checkObserverCount()
}

// opRegLocked: the first use of a component type on a locked world panics and leaves nothing behind (the type is not
// registered afterwards: ComponentIDs and the number of types are those of the model).
func (it *Interp) opRegLocked(op *Op) {
	it.run(op, false, func(b *Backend) {
		if op.E >= 0 {
			comps.Register(b.W, op.E)
		} else {
			ecs.TypeID(b.W, fillerType(b.Cfg.Filler+it.M.Extra))
		}
	})
}

// opBulkObs registers op.N observers that can never fire (they require and exclude the same component), checks the
// observer figure of the statistics, unregisters them in a drawn pattern and checks again. The model's observers are
// not touched; at the end none of the extra observers is left.
func (it *Interp) opBulkObs(op *Op) {
	base := 0
	for _, o := range it.M.Obs {
		if o.Registered {
			base++
		}
	}
	it.run(op, true, func(b *Backend) {
		if b.Pol.DropObsOdd {
			return // this backend's own observer count differs from the model's
		}
		c := compsOf(op.Comps)
		var l []*ecs.Observer
		for i := 0; i < op.N; i++ {
			o := ecs.Observe(b.evT[EvCustom1]).With(c...).Without(c...).Do(func(e ecs.Entity) {
				fail("events|bulkObs|fired", "%s: an observer that requires and excludes the same component fired for %v", b.Name, e)
			})
			o.Register(b.W)
			l = append(l, o)
			if i%50 == 49 || i == op.N-1 {
				if got := b.W.Stats().Observers; !b.Pol.SkipStats && got != base+i+1 {
					fail("stats|observers|count", "%s step %d: %d observers registered, Stats.Observers=%d", b.Name, it.Step, base+i+1, got)
				}
			}
		}
		for i, o := range l {
			if i%2 == op.Mode%2 {
				o.Unregister(b.W)
			}
		}
		left := 0
		for i := range l {
			if i%2 != op.Mode%2 {
				left++
			}
		}
		if got := b.W.Stats().Observers; !b.Pol.SkipStats && got != base+left {
			fail("stats|observers|count", "%s step %d: %d observers registered after unregistering every other one, Stats.Observers=%d", b.Name, it.Step, base+left, got)
		}
		for i, o := range l {
			if i%2 != op.Mode%2 {
				o.Unregister(b.W)
			}
		}
	})
	it.checkObserverCount()
	it.count("bulk-observers")
}

// wildcardOrAlive returns some alive entity of the backend (or the zero entity).
func (b *Backend) wildcardOrAlive(it *Interp) ecs.Entity {
	for s := len(b.H) - 1; s >= 0; s-- {
		if h := b.H[s]; !h.IsZero() && b.W.Alive(h) {
			return h
		}
	}
	return ecs.Entity{}
}
