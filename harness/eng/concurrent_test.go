package eng

import (
	"encoding/json"
	"fmt"
	"os"
	"runtime"
	"sync"
	"testing"

	"arkverif/comps"

	"pgregory.net/rapid"
)

// A goroutine script for the concurrent phase.
type gScript struct {
	F       int       `json:"f"`
	QRels   []RelSpec `json:"qrels,omitempty"`
	Steps   int       `json:"steps"`   // Next calls before closing early (>= 1000: iterate to the end)
	Count   bool      `json:"count"`   // call Count
	At      int       `json:"at"`      // EntityAt(At % count) if >= 0
	Yield   int       `json:"yield"`   // Gosched every Yield steps (0 = never)
	Barrier bool      `json:"barrier"` // wait for all goroutines after opening the query (up to 64 open at once)
	Rounds  int       `json:"rounds"`  // repeat the script
}

type concCase struct {
	Property string    `json:"property"`
	Kind     string    `json:"kind"`
	Cfg      Config    `json:"cfg"`
	Ops      []Op      `json:"ops"`
	Procs    int       `json:"procs"`
	Scripts  []gScript `json:"scripts"`
	Failure  string    `json:"failure,omitempty"`
	Sig      string    `json:"signature,omitempty"`
}

var c13Profile = &Profile{Name: "concurrent-setup", W: map[string]int{"new": 20, "newBatch": 6, "add": 8, "remove": 4, "setRel": 6, "removeEntity": 4, "filterNew": 10, "filterReg": 5, "query": 3, "shrink": 1},
	MaxEnts: 40, MinOps: 8, MaxOps: 50, RelBias: 50, Caps: []int{1, 2, 4, 16}}

type gResult struct {
	visited []int
	err     string
}

// runConcurrent executes the concurrent phase; returns a violation message or "".
func runConcurrent(it *Interp, cc *concCase) (sig, msg string) {
	b := it.B[0]
	m := it.M
	HitsOff = true
	old := runtime.GOMAXPROCS(cc.Procs)
	defer runtime.GOMAXPROCS(old)
	expected := make([]map[int]bool, len(cc.Scripts))
	for i, s := range cc.Scripts {
		expected[i] = map[int]bool{}
		for _, e := range m.Select(m.Filters[s.F], s.QRels) {
			expected[i][e] = true
		}
	}
	nBarrier := 0
	for _, s := range cc.Scripts {
		if s.Barrier {
			nBarrier++
		}
	}
	var barrier sync.WaitGroup
	barrier.Add(nBarrier)
	results := make([]gResult, len(cc.Scripts))
	var wg sync.WaitGroup
	start := make(chan struct{})
	for gi := range cc.Scripts {
		wg.Add(1)
		go func(gi int) {
			defer wg.Done()
			s := cc.Scripts[gi]
			res := &results[gi]
			defer func() {
				if p := recover(); p != nil {
					res.err = fmt.Sprint("panic: ", p)
					if s.Barrier {
						// keep the others from waiting forever
						defer func() { recover() }()
						barrier.Done()
					}
				}
			}()
			<-start
			for round := 0; round <= s.Rounds; round++ {
				q := b.openQueryOn(m, s.F, s.QRels)
				if s.Barrier && round == 0 {
					barrier.Done()
					barrier.Wait()
				}
				if s.Count {
					if c := q.Count(); c != len(expected[gi]) {
						res.err = fmt.Sprintf("Count=%d, expected %d", c, len(expected[gi]))
					}
				}
				if s.At >= 0 && len(expected[gi]) > 0 {
					h := q.EntityAt(s.At % len(expected[gi]))
					if ser, ok := b.Ser[h]; !ok || !expected[gi][ser] {
						res.err = fmt.Sprintf("EntityAt yields %v which does not match", h)
					}
				}
				var visited []int
				closed := false
				for i := 0; ; i++ {
					if i >= s.Steps {
						q.Close()
						closed = true
						break
					}
					if !q.Next() {
						break
					}
					h := q.Entity()
					ser, ok := b.Ser[h]
					if !ok || !expected[gi][ser] {
						res.err = fmt.Sprintf("query yields %v which does not match", h)
					}
					visited = append(visited, ser)
					// read the components (never write: concurrent writers are the user's responsibility)
					ptrs := q.Get()
					for j, c := range it.queryComps(s.F) {
						if ok && comps.GetV(c, ptrs[j]) != m.Ents[ser].Val[c] {
							res.err = fmt.Sprintf("entity #%d component %s reads %d, model %d", ser, comps.All[c].Name, comps.GetV(c, ptrs[j]), m.Ents[ser].Val[c])
						}
					}
					if s.Yield > 0 && i%s.Yield == 0 {
						runtime.Gosched()
					}
				}
				if !closed {
					if len(visited) != len(expected[gi]) {
						res.err = fmt.Sprintf("visited %d entities, expected %d", len(visited), len(expected[gi]))
					}
					seen := map[int]bool{}
					for _, v := range visited {
						if seen[v] {
							res.err = fmt.Sprintf("entity #%d visited twice", v)
						}
						seen[v] = true
					}
					q.Close() // closing a finished query is harmless
				}
				res.visited = visited
			}
		}(gi)
	}
	close(start)
	wg.Wait()
	for gi, r := range results {
		if r.err != "" {
			return "concurrent|query|wrong-result", fmt.Sprintf("goroutine %d (filter %d %s): %s", gi, cc.Scripts[gi].F, specStr(m.Filters[cc.Scripts[gi].F]), r.err)
		}
	}
	if b.W.IsLocked() {
		return "concurrent|lock|still-locked", "world still locked after all goroutines finished"
	}
	if p := try(func() { b.W.RemoveEntity(b.W.NewEntity()) }); p != nil {
		return "concurrent|lock|structural-op-fails", fmt.Sprint("NewEntity after the concurrent phase panicked: ", p)
	}
	return "", ""
}

// buildWorld executes the setup ops on a fresh interpreter.
func buildWorld(cfg Config, ops []Op) *Interp {
	it := NewInterp(cfg, []Policy{{}}, Options{})
	for i := range ops {
		it.Apply(&ops[i])
	}
	return it
}

func TestC13(t *testing.T) {
	st := NewRunStats("C13")
	st.Rule = "a drawn setup history builds a world (several archetypes, relation tables, typed/unsafe filters, some registered); optionally a new archetype is created after the filters were last queried (stale rare-component hint); " +
		"then 2-64 goroutines run drawn scripts over shared filters (Query with per-query targets, Count, EntityAt, Next x k reading components, early Close or exhaustion, Gosched at drawn points, optional barrier so that up to 64 queries are open at once) " +
		"under GOMAXPROCS 2 or 16 in a binary built with -race (GORACE=halt_on_error=1); oracles: no race report, every goroutine sees exactly its expected entities and values, world unlocked and modifiable after join; " +
		"non-trivial = >= 2 goroutines share a typed unregistered filter whose hint is stale (never queried, or an archetype was added since); distinct = distinct (setup, scripts)"
	defer st.Write()
	pending := os.Getenv("VERIF_FAILFILE")
	rapid.Check(t, func(rt *rapid.T) {
		HitsOff = false
		cfg := DrawConfig(rt, c13Profile)
		it := NewInterp(cfg, []Policy{{}}, Options{DeepEvery: 0})
		g := &Gen{P: c13Profile, It: it}
		g.DrawHot(rt)
		n := rapid.IntRange(c13Profile.MinOps, c13Profile.MaxOps).Draw(rt, "nops")
		var ops []Op
		apply := func(op *Op) {
			ops = append(ops, *op)
			it.Apply(op)
		}
		defer func() {
			if r := recover(); r != nil {
				if v, ok := r.(*Violation); ok {
					// the sequential setup is not what C13 checks; such failures belong to C01-C06
					rt.Skip("setup violated a sequential property: " + v.Sig)
				}
				panic(r)
			}
		}()
		for i := 0; i < n; i++ {
			op := g.Next(rt)
			if op == nil {
				break
			}
			apply(op)
		}
		if len(liveFilters(it.M)) == 0 {
			apply(g.genFilter(rt))
		}
		stale := rapid.Bool().Draw(rt, "newArchetypeAfterLastQuery")
		if stale {
			// a component combination that most likely does not exist yet
			op := &Op{K: "new", P: PUnsafe, Comps: subset(rt, 0xffff&^comps.RelMask, 3, 6, "freshArchetype")}
			apply(op)
		}
		live := liveFilters(it.M)
		// filters are often used for batch operations before they are queried: call Batch(rel...) on some of them
		for _, fi := range live {
			f := it.M.Filters[fi]
			if f.Inst >= 0 && f.Mask()&comps.RelMask != 0 && rapid.Bool().Draw(rt, "priorBatchCall") {
				var rs []RelSpec
				fixed := uint16(0)
				for _, r := range f.Rels {
					fixed |= 1 << uint(r.C)
				}
				for _, c := range listOf(f.Mask() & comps.RelMask &^ fixed) {
					rs = append(rs, RelSpec{C: c, T: g.pickTarget(rt), S: rapid.IntRange(0, 2).Draw(rt, "relStyle")})
				}
				apply(&Op{K: "batchCall", F: fi, QRels: rs})
			}
		}
		ng := rapid.SampledFrom([]int{2, 2, 3, 4, 8, 16, 32, 64}).Draw(rt, "goroutines")
		cc := &concCase{Property: "C13", Kind: "concurrent", Cfg: cfg, Procs: rapid.SampledFrom([]int{2, 16}).Draw(rt, "gomaxprocs")}
		shareOne := rapid.Bool().Draw(rt, "shareOneFilter")
		f0 := rapid.SampledFrom(live).Draw(rt, "sharedFilter")
		barrier := rapid.Bool().Draw(rt, "barrier")
		users := map[int]int{}
		for i := 0; i < ng; i++ {
			s := gScript{F: f0, At: -1}
			if !shareOne {
				s.F = rapid.SampledFrom(live).Draw(rt, "filter")
			}
			users[s.F]++
			s.QRels = g.qrels(rt, it.M.Filters[s.F])
			s.Steps = rapid.SampledFrom([]int{0, 1, 2, 5, 1000, 1000, 1000}).Draw(rt, "steps")
			s.Count = rapid.Bool().Draw(rt, "count")
			if rapid.Bool().Draw(rt, "entityAt") {
				s.At = rapid.IntRange(0, 50).Draw(rt, "at")
			}
			s.Yield = rapid.IntRange(0, 3).Draw(rt, "yield")
			s.Barrier = barrier
			s.Rounds = rapid.IntRange(0, 2).Draw(rt, "rounds")
			cc.Scripts = append(cc.Scripts, s)
		}
		cc.Ops = ops
		nontrivial := false
		for fi, n := range users {
			f := it.M.Filters[fi]
			if n >= 2 && f.Inst >= 0 && !f.Registered && (!f.Queried || stale) {
				nontrivial = true
			}
		}
		if pending != "" {
			b, _ := json.MarshalIndent(cc, "", " ")
			_ = os.WriteFile(pending+".pending", b, 0o644)
		}
		sig, msg := runConcurrent(it, cc)
		// the first concurrent use of a filter is the delicate moment (its hint is computed then): repeat the scenario
		// with fresh filter objects, so that every repetition is a first use again
		for rep := 0; rep < 3 && sig == ""; rep++ {
			for fi := range users {
				if f := it.M.Filters[fi]; f.Inst >= 0 && !f.Registered && !f.Stale {
					ok := true
					for _, r := range f.Rels {
						if !it.M.targetOK(r.T) {
							ok = false // a filter can only be built while its fixed targets are alive
						}
					}
					if ok {
						it.B[0].flt[fi] = it.B[0].buildFilter(f)
					}
				}
			}
			sig, msg = runConcurrent(it, cc)
		}
		if sig != "" {
			cc.Sig, cc.Failure = sig, msg
			st.Failed = true
			st.FailSig, st.FailMsg = sig, msg
			if pending != "" {
				b, _ := json.MarshalIndent(cc, "", " ")
				_ = os.WriteFile(pending, b, 0o644)
			}
			st.Write()
			rt.Fatalf("VIOLATION-CASE property=C13 sig=%s\n%s", sig, msg)
		}
		if st.Failed {
			return
		}
		st.Evaluations++
		st.Classes[fmt.Sprintf("goroutines-%d", ng)]++
		if barrier {
			st.Classes["barrier-all-open-at-once"]++
			if ng == 64 {
				st.Classes["64-queries-open-at-once"]++
			}
		}
		if stale {
			st.Classes["archetype-added-after-last-query"]++
		}
		if nontrivial {
			st.Classes["shared-filter-with-stale-hint"]++
			b, _ := json.Marshal(cc)
			st.AddNonTrivial(b)
			if len(st.Samples) < 2 && len(ops) < 25 && ng <= 4 {
				st.Samples = append(st.Samples, cc)
			}
		}
	})
	if pending != "" {
		_ = os.Remove(pending + ".pending")
	}
}

// TestReplayC13 re-executes a saved concurrent case 100 times (schedules vary; the race detector is the sensor).
func TestReplayC13(t *testing.T) {
	path := os.Getenv("VERIF_REPLAY")
	if path == "" {
		t.Skip("VERIF_REPLAY not set")
	}
	b, err := os.ReadFile(path)
	if err != nil {
		t.Fatal(err)
	}
	cc := &concCase{}
	if err := json.Unmarshal(b, cc); err != nil {
		t.Fatal(err)
	}
	for i := 0; i < 100; i++ {
		it := buildWorld(cc.Cfg, cc.Ops)
		if sig, msg := runConcurrent(it, cc); sig != "" {
			t.Fatalf("REPLAY-VIOLATION property=C13 sig=%s\n%s", sig, msg)
		}
	}
}
