package eng

import (
	"arkverif/comps"

	"pgregory.net/rapid"
)

// Profile configures the generator for one property.
type Profile struct {
	Name         string
	W            map[string]int // weights per op kind
	MaxEnts      int
	MinOps       int
	MaxOps       int
	Caps         []int // drawn initial capacities (0 = ark default)
	MaxFill      int   // maximum number of filler types (240 for the 256-bit mask, 48 for tiny)
	Misuse       bool  // generate precondition violations
	Nested       bool  // generate structural attempts inside locking callbacks
	OpenQ        bool  // keep queries open across operations
	MaxOpenQ     int
	NoFillerBias bool
	RelBias      int    // percent chance to add a relation component to ID-based creations/additions
	FixedRelBias int    // percent chance per relation component of a new filter to get a fixed target (default: about 30)
	Burst        bool   // open bursts of queries up to the limit of 64
	BigBatches   bool   // batches of up to 90 entities (tables beyond 64 rows)
	Bulk         int    // percentage of cases that start with a bulk op (hundreds of archetypes)
	FinalOp      string // extra final operation ("roundtrip")
	ForceReset   bool   // one Reset is forced in the middle of the case; the first prefix observer listens to OnRemoveRelations
	ObsPrefix    int    // observers created (and mostly registered) at the start of a case
}

// Gen draws operations given the model state.
type Gen struct {
	P           *Profile
	It          *Interp
	qSeq        int
	queue       []*Op // ops of a multi-step scenario still to be emitted
	bulkDrawn   bool
	bulkObsDone bool
	bigDone     bool
	hot         uint16 // components preferred by this case, so that entities share archetypes
	N           int    // planned number of ops
	resetAt     int
	burst       int
}

var defaultCaps = []int{1, 1, 2, 3, 4, 8, 16, 64}

// DrawConfig draws a world configuration.
func DrawConfig(t *rapid.T, p *Profile) Config {
	caps := p.Caps
	if caps == nil {
		caps = defaultCaps
	}
	cfg := Config{}
	cfg.Cap1 = rapid.SampledFrom(caps).Draw(t, "cap1")
	if cfg.Cap1 != 0 {
		if rapid.IntRange(0, 3).Draw(t, "cap2given") > 0 {
			cfg.Cap2 = rapid.SampledFrom(caps).Draw(t, "cap2")
			if cfg.Cap2 == 0 {
				cfg.Cap2 = 1
			}
		}
	}
	maxFill := p.MaxFill
	if maxFill == 0 {
		maxFill = 240
	}
	switch rapid.IntRange(0, 4).Draw(t, "fillerClass") {
	case 0:
		cfg.Filler = 0
	case 1:
		cfg.Filler = min(maxFill, rapid.IntRange(48, 63).Draw(t, "filler"))
	case 2:
		cfg.Filler = min(maxFill, rapid.IntRange(112, 127).Draw(t, "filler"))
	case 3:
		cfg.Filler = min(maxFill, rapid.IntRange(176, 191).Draw(t, "filler"))
	default:
		cfg.Filler = min(maxFill, rapid.IntRange(224, 240).Draw(t, "filler"))
	}
	cfg.Perm = rapid.Permutation(seq(comps.N)).Draw(t, "perm")
	if cfg.Filler <= 200 && rapid.Bool().Draw(t, "lateRegistration") {
		cfg.Late = rapid.IntRange(1, 10).Draw(t, "late")
	}
	return cfg
}

func seq(n int) []int {
	l := make([]int, n)
	for i := range l {
		l[i] = i
	}
	return l
}

func (g *Gen) m() *Model { return g.It.M }

func (g *Gen) w(k string) int { return g.P.W[k] }

// Next draws the next operation. Returns nil if nothing is enabled.
func (g *Gen) Next(t *rapid.T) *Op {
	m := g.m()
	alive := m.AliveList()
	locked := g.It.locked()
	type cand struct {
		k string
		w int
	}
	var cs []cand
	add := func(k string, enabled bool) {
		if w := g.w(k); w > 0 && enabled {
			cs = append(cs, cand{k, w})
		}
	}
	nTyped, nLive := 0, 0
	for _, f := range m.Filters {
		if f.Stale {
			continue
		}
		nLive++
		if f.Inst >= 0 {
			nTyped++
		}
	}
	structural := !locked || g.P.OpenQ // under lock structural ops are generated as rejected attempts
	room := len(alive) < g.P.MaxEnts
	add("regLocked", locked)
	add("new", structural && room)
	add("newBatch", structural && room)
	add("copy", structural && room && len(alive) > 0)
	add("add", structural && len(alive) > 0)
	add("remove", structural && len(alive) > 0)
	add("exchange", structural && len(alive) > 0)
	add("set", len(alive) > 0)
	add("write", len(alive) > 0)
	add("setRel", structural && len(alive) > 0)
	add("removeEntity", structural && len(alive) > 0)
	add("addBatch", structural && nTyped > 0)
	add("removeBatch", structural && nTyped > 0)
	add("exchangeBatch", structural && nTyped > 0)
	add("setRelBatch", structural && nTyped > 0)
	add("removeEntities", structural && nTyped > 0)
	add("filterNew", len(m.Filters) < 8)
	add("filterReg", nTyped > 0)
	add("query", nLive > 0 && m.OpenQ < 60)
	add("shrink", !locked)
	add("reset", !locked)
	add("stats", true)
	add("obsNew", len(m.Obs) < 8)
	add("obsReg", len(m.Obs) > 0)
	add("emit", true)
	add("res", true)
	add("qOpen", g.P.OpenQ && nLive > 0 && (m.OpenQ < g.P.MaxOpenQ || m.OpenQ == 64)) // at 64: the attempt to open a 65th (must panic, nothing changes)
	add("qNext", g.P.OpenQ && len(m.Open) > 0)                                        // open queries, or finished ones (Next on a finished query)
	add("qClose", g.P.OpenQ && len(m.Open) > 0)
	add("scenario", !locked && room && len(m.Filters) < 8)
	add("misuse", g.P.Misuse)
	add("read", true)
	add("dumpLoad", !locked)
	add("gc", true)
	add("batchCall", nTyped > 0)
	maxTypes := MaskBits + 1 // one attempt beyond the maximum is generated (must be rejected)
	if g.P.MaxFill > 0 {
		maxTypes = g.P.MaxFill + comps.N // histories that must stay within the 64-bit mask (C20)
	}
	add("register", g.It.B[0].Cfg.Filler+comps.N+m.Extra < maxTypes)
	add("dump", m.OpenQ < 60) // DumpEntities runs a query of its own: it needs a free lock bit
	add("loadSaved", !locked && g.It.saved != nil)
	add("probe", true)
	if len(g.queue) > 0 {
		op := g.queue[0]
		g.queue = g.queue[1:]
		if !locked || op.K == "qClose" || op.K == "qNext" {
			return g.fixup(op)
		}
		g.queue = nil
	}
	if g.P.Bulk > 0 && g.It.Step == 0 && !g.bulkDrawn {
		g.bulkDrawn = true
		if v := rapid.IntRange(0, 99).Draw(t, "bulk"); v >= 40 && v < 40+g.P.Bulk { // (rapid favours the ends of a range)
			if rapid.IntRange(0, 2).Draw(t, "bulkRelation") == 0 {
				op := &Op{K: "bulk", Sub: "rel", Comps: []int{rapid.SampledFrom(listOf(comps.RelMask)).Draw(t, "bulkRel")},
					N: rapid.SampledFrom([]int{15, 16, 17, 33, 64, 65, 127, 128, 129, 140}).Draw(t, "bulkTargets")}
				if rapid.IntRange(0, 2).Draw(t, "bulkBatchRemoval") == 0 {
					op.Mode = 1
					op.N = rapid.SampledFrom([]int{16, 17, 128, 255, 256, 257, 300}).Draw(t, "bulkTargets")
				} else if g.P.Bulk >= 15 || rapid.Bool().Draw(t, "thenShrink") {
					g.queue = append(g.queue, &Op{K: "shrink"})
				}
				return op
			}
			return &Op{K: "bulk", N: rapid.SampledFrom([]int{100, 127, 128, 129, 140, 255, 256, 257, 300}).Draw(t, "bulkArchetypes"), Mode: rapid.IntRange(0, 999).Draw(t, "bulkSeed")}
		}
	}
	if g.P.ObsPrefix > 0 && g.It.Step < g.P.ObsPrefix+g.bulkShift() && len(m.Obs) < 8 {
		op := g.genObs(t)
		if g.P.ForceReset && len(m.Obs) == 0 {
			op.OS = &ObsSpec{Inst: -1, Ev: EvRemoveRels}
			op.Mode = 1
		}
		return op
	}
	if g.P.ForceReset {
		if g.resetAt == 0 {
			g.resetAt = g.P.ObsPrefix + 3 + rapid.IntRange(g.N*3/10, g.N*7/10).Draw(t, "resetAt")
		}
		if g.It.Step >= g.resetAt && g.resetAt > 0 && !locked {
			g.resetAt = 1 << 30
			return &Op{K: "reset"}
		}
	}
	if g.burst > 0 && g.P.OpenQ && nLive > 0 && (m.OpenQ < g.P.MaxOpenQ || m.OpenQ == 64) {
		g.burst--
		op := g.genQuery(t)
		op.K = "qOpen"
		g.qSeq++
		op.Q = g.qSeq
		if m.OpenQ == 64 && rapid.IntRange(0, 3).Draw(t, "retryRejected") == 0 {
			op.N = rapid.SampledFrom([]int{63, 191, 192, 193, 255, 256, 300}).Draw(t, "retries")
		}
		return op
	}
	if len(cs) == 0 {
		return nil
	}
	total := 0
	for _, c := range cs {
		total += c.w
	}
	r := rapid.IntRange(0, total-1).Draw(t, "kind")
	k := ""
	for _, c := range cs {
		if r < c.w {
			k = c.k
			break
		}
		r -= c.w
	}
	var op *Op
	switch k {
	case "new":
		op = g.genNew(t)
	case "newBatch":
		op = g.genNewBatch(t)
	case "copy":
		op = &Op{K: "copy", E: g.pickAlive(t)}
	case "add":
		op = g.genAdd(t, g.pickAlive(t))
	case "remove":
		op = g.genRemove(t, g.pickAlive(t))
	case "exchange":
		op = g.genExchange(t, g.pickAlive(t))
	case "set":
		op = g.genSet(t)
	case "write":
		op = g.genWrite(t)
	case "setRel":
		op = g.genSetRel(t)
	case "removeEntity":
		op = &Op{K: "removeEntity", E: g.pickAlive(t)}
	case "addBatch", "removeBatch", "exchangeBatch", "setRelBatch", "removeEntities":
		op = g.genBatch(t, k)
	case "filterNew":
		op = g.genFilter(t)
		if op != nil && op.FS != nil && op.FS.Inst >= 0 && FilterInsts[op.FS.Inst].Arity >= 3 && !locked && len(m.AliveList()) < g.P.MaxEnts-5 && len(g.queue) == 0 && rapid.Bool().Draw(t, "populateFilter") {
			// a filter over many components rarely matches anything by chance: create two or three entities for it (same
			// table; values differ), so that its typed query code runs over rows > 0
			list := op.FS.List()
			seen := map[int]bool{}
			var cl []int
			for _, c := range list {
				if !seen[c] {
					seen[c] = true
					cl = append(cl, c)
				}
			}
			var rels []RelSpec
			for _, c := range cl {
				if comps.All[c].Relation {
					tg := g.pickTarget(t)
					for _, r := range op.FS.Rels {
						if r.C == c {
							tg = r.T
						}
					}
					rels = append(rels, RelSpec{C: c, T: tg, S: 2})
				}
			}
			for i, n := 0, rapid.IntRange(2, 3).Draw(t, "populateN"); i < n; i++ {
				g.queue = append(g.queue, &Op{K: "new", P: PUnsafe, Comps: cl, Vals: g.vals(len(cl)), Rels: rels})
			}
			// ... and entities that have every required component plus one excluded one (the first and the last excluded
			// component; any other component for an exclusive filter): they show a wrongly built exclusion mask
			var extra []int
			if op.FS.Exclusive {
				for c := 0; c < comps.N; c++ {
					if !seen[c] {
						extra = append(extra, c)
					}
				}
				if len(extra) > 0 {
					extra = []int{extra[rapid.IntRange(0, len(extra)-1).Draw(t, "populateExtra")]}
				}
			} else if wl := op.FS.Without; len(wl) > 0 {
				extra = []int{wl[0]}
				if len(wl) > 1 {
					extra = append(extra, wl[len(wl)-1])
				}
			}
			for _, x := range extra {
				if seen[x] {
					continue
				}
				l2 := append(append([]int{}, cl...), x)
				r2 := append([]RelSpec{}, rels...)
				if comps.All[x].Relation {
					r2 = append(r2, RelSpec{C: x, T: g.pickTarget(t), S: 2})
				}
				g.queue = append(g.queue, &Op{K: "new", P: PUnsafe, Comps: l2, Vals: g.vals(len(l2)), Rels: r2})
			}
		}
	case "filterReg":
		op = g.genFilterReg(t)
	case "query":
		op = g.genQuery(t)
	case "shrink":
		op = &Op{K: "shrink", Mode: rapid.SampledFrom([]int{0, 0, 0, 1, 1, 2, 3}).Draw(t, "shrinkMode")}
	case "reset":
		op = &Op{K: "reset"}
		if rapid.IntRange(0, 7).Draw(t, "resetCycles") == 0 {
			// a world that is reset over and over (with a query in between): N more Resets of the then empty world
			op.N = rapid.SampledFrom([]int{21, 22, 63, 64, 65, 130}).Draw(t, "cycles")
		}
	case "stats":
		op = &Op{K: "stats"}
	case "obsNew":
		op = g.genObs(t)
	case "obsReg":
		op = g.genObsReg(t)
		if !locked && !g.bulkObsDone && rapid.IntRange(0, 19).Draw(t, "bulkObservers") == 0 {
			g.bulkObsDone = true
			op = &Op{K: "bulkObs", Comps: []int{0}, N: rapid.SampledFrom([]int{64, 65, 255, 256, 257, 300}).Draw(t, "bulkObsN"), Mode: rapid.IntRange(0, 1).Draw(t, "bulkObsKeep")}
		}
	case "emit":
		op = g.genEmit(t)
	case "res":
		op = &Op{K: "res", E: rapid.IntRange(0, 3).Draw(t, "res"), Mode: rapid.IntRange(0, 1).Draw(t, "resMode")}
	case "probe":
		op = g.genProbe(t)
	case "dump":
		op = &Op{K: "dump"}
	case "loadSaved":
		op = &Op{K: "loadSaved"}
	case "batchCall":
		op = g.genBatchCall(t)
	case "regLocked":
		op = &Op{K: "regLocked", E: -1, Sub: "register-locked"}
		if un := listOf(0xffff &^ m.Reg); len(un) > 0 && m.Reg != 0 && rapid.Bool().Draw(t, "universeType") {
			op.E = rapid.SampledFrom(un).Draw(t, "unregistered")
		}
	case "register":
		op = &Op{K: "register"}
	case "gc":
		op = &Op{K: "gc", Mode: rapid.IntRange(0, 1).Draw(t, "gcMode")}
	case "dumpLoad":
		op = &Op{K: "dumpLoad", Mode: rapid.IntRange(0, 1).Draw(t, "dumpFresh")}
		// the observers lose their registration (Mode 1: the objects move to a new world): register some of them again
		var reg []int
		for j, o := range m.Obs {
			if o.Registered {
				reg = append(reg, j)
			}
		}
		if len(reg) > 0 && rapid.Bool().Draw(t, "reRegisterObservers") {
			for _, j := range reg[:rapid.IntRange(1, min(3, len(reg))).Draw(t, "reRegisterN")] {
				g.queue = append(g.queue, &Op{K: "obsReg", Q: j, Mode: 1})
			}
		}
	case "qOpen":
		op = g.genQuery(t)
		if rapid.Bool().Draw(t, "sameFilterAgain") {
			// another query of a filter that already has an open one, with its own per-query targets
			var open []int
			for _, q := range m.Open {
				if !q.done && !m.Filters[q.filter].Stale {
					open = append(open, q.filter)
				}
			}
			sortInts(open)
			if len(open) > 0 {
				fi := rapid.SampledFrom(open).Draw(t, "openFilter")
				op = &Op{K: "query", F: fi, QRels: g.qrels(t, m.Filters[fi])}
			}
		}
		if g.P.Burst && rapid.IntRange(0, 9).Draw(t, "burst") == 0 {
			g.burst = rapid.IntRange(10, 70).Draw(t, "burstLen")
		}
		if op != nil {
			op.K = "qOpen"
			g.qSeq++
			op.Q = g.qSeq
			if m.OpenQ == 64 && rapid.IntRange(0, 3).Draw(t, "retryRejected") == 0 {
				op.N = rapid.SampledFrom([]int{63, 191, 192, 193, 255, 256, 300}).Draw(t, "retries")
			}
		}
	case "qNext":
		op = g.genQNext(t)
	case "qClose":
		op = g.genQClose(t)
	case "scenario":
		op = g.genScenario(t)
	case "misuse":
		op = g.genMisuse(t)
	case "read":
		op = g.genRead(t)
	}
	if op != nil && locked && opComps(op)&^m.Reg != 0 {
		// would need to register a component type on a locked world (documented to panic): not drawn
		return &Op{K: "stats"}
	}
	return op
}

func (g *Gen) pickAlive(t *rapid.T) int {
	return rapid.SampledFrom(g.m().AliveList()).Draw(t, "entity")
}

// pickTarget draws a relation target: the zero entity or an alive entity.
func (g *Gen) pickTarget(t *rapid.T) int {
	al := g.m().AliveList()
	if len(al) == 0 || rapid.IntRange(0, 5).Draw(t, "zeroTarget") == 0 {
		return -1
	}
	// bias towards few distinct targets so that tables are shared
	if len(al) > 3 && rapid.Bool().Draw(t, "lowTarget") {
		return al[rapid.IntRange(0, 2).Draw(t, "target")]
	}
	return rapid.SampledFrom(al).Draw(t, "target")
}

// subset draws a subset of the set bits of mask with size in [lo,hi].
func subset(t *rapid.T, mask uint16, lo, hi int, label string) []int {
	l := listOf(mask)
	if hi > len(l) {
		hi = len(l)
	}
	if lo > hi {
		lo = hi
	}
	n := rapid.IntRange(lo, hi).Draw(t, label+"N")
	if n == 0 {
		return nil
	}
	p := rapid.Permutation(l).Draw(t, label)
	return p[:n]
}

func (g *Gen) relsFor(t *rapid.T, list []int) []RelSpec {
	var rs []RelSpec
	for _, c := range list {
		if comps.All[c].Relation {
			rs = append(rs, RelSpec{C: c, T: g.pickTarget(t), S: rapid.IntRange(0, 2).Draw(t, "relStyle")})
		}
	}
	if len(rs) > 1 && rapid.Bool().Draw(t, "relsReversed") {
		for i, j := 0, len(rs)-1; i < j; i, j = i+1, j-1 {
			rs[i], rs[j] = rs[j], rs[i]
		}
	}
	return rs
}

func (g *Gen) vals(n int) []int64 {
	v := make([]int64, n)
	for i := range v {
		v[i] = g.m().Val()
	}
	return v
}

func drawInit(t *rapid.T) int {
	return rapid.SampledFrom([]int{InitVal, InitVal, InitFn, InitFn, InitNilFn}).Draw(t, "init")
}

// mapInstsWithin returns the mapper instantiations whose components are all inside allowed (and at least one).
func instsWithin(allowed uint16, masks func(i int) uint16, n int) []int {
	var l []int
	for i := 0; i < n; i++ {
		if m := masks(i); m&^allowed == 0 {
			l = append(l, i)
		}
	}
	return l
}

func mapMask(i int) uint16 { return MapInsts[i].Mask }
func exMask(i int) uint16  { return ExInsts[i].Mask }

// pickByArity draws one of the instantiations, uniform over the arities present (so high arities are not drowned).
func pickByArity(t *rapid.T, l []int, arity func(i int) int, label string) int {
	by := map[int][]int{}
	var ar []int
	for _, i := range l {
		a := arity(i)
		if _, ok := by[a]; !ok {
			ar = append(ar, a)
		}
		by[a] = append(by[a], i)
	}
	a := rapid.SampledFrom(ar).Draw(t, label+"Arity")
	return rapid.SampledFrom(by[a]).Draw(t, label)
}

func mapArity(i int) int {
	if i < comps.N {
		return 0 // Map[T]
	}
	return MapInsts[i].Arity
}
func exArity(i int) int { return ExInsts[i].Arity }

func (g *Gen) genNew(t *rapid.T) *Op {
	m := g.m()
	op := &Op{K: "new"}
	switch rapid.IntRange(0, 9).Draw(t, "newPath") {
	case 0:
		op.P = PWorld
		return op
	case 1, 2, 3, 4:
		op.P = PUnsafe
		// targeted at an existing filter with some probability
		var mask uint16
		if nl := liveFilters(m); len(nl) > 0 && rapid.Bool().Draw(t, "targeted") {
			f := m.Filters[rapid.SampledFrom(nl).Draw(t, "targetFilter")]
			mask = f.Mask()
			if !f.Exclusive {
				extra := subset(t, ^mask&^maskOf(f.Without), 0, 2, "extra")
				mask |= maskOf(extra)
			}
			op.Comps = rapid.Permutation(listOf(mask)).Draw(t, "order")
			op.Rels = g.relsFor(t, op.Comps)
			// use the filter's fixed targets when alive
			for i := range op.Rels {
				for _, fr := range f.Rels {
					if fr.C == op.Rels[i].C && m.targetOK(fr.T) && rapid.Bool().Draw(t, "useFixed") {
						op.Rels[i].T = fr.T
					}
				}
			}
		} else if rapid.IntRange(0, 11).Draw(t, "nearMiss") == 0 {
			// all components of a drawn mapper (any arity) but one
			mi := pickByArity(t, seq(len(MapInsts))[2*comps.N:], mapArity, "nearMissMapper")
			l := append([]int{}, MapInsts[mi].Comps...)
			k := rapid.IntRange(0, len(l)-1).Draw(t, "missing")
			op.Comps = append(l[:k], l[k+1:]...)
			op.Rels = g.relsFor(t, op.Comps)
		} else {
			op.Comps = g.biasRel(t, g.hotSubset(t, 0xffff, 0, 5, "comps"), 0)
			op.Rels = g.relsFor(t, op.Comps)
		}
		for i := range op.Rels {
			if op.Rels[i].S == 0 {
				op.Rels[i].S = 2
			}
		}
		if rapid.IntRange(0, 3).Draw(t, "withVals") > 0 {
			op.Vals = g.vals(len(op.Comps))
		}
		if len(op.Rels) == 0 {
			op.Mode = rapid.IntRange(0, 1).Draw(t, "newRelVariant")
		}
		return op
	default:
		op.P = PMap
		op.M = pickByArity(t, g.preferHot(t, seq(len(MapInsts)), mapMask, "mapper"), mapArity, "mapper")
		list := MapInsts[op.M].Comps
		op.Comps = list
		op.Rels = g.relsFor(t, list)
		op.Init = drawInit(t)
		if op.Init != InitNilFn {
			op.Vals = g.vals(len(list))
		}
		if op.Init == InitVal && len(list) == 1 && !comps.All[list[0]].Relation && rapid.IntRange(0, 2).Draw(t, "aliasedSource") == 0 {
			// the initial value is the pointer to another entity's component inside the world (m.NewEntity(m.Get(src))):
			// prefer a source in the destination table, which may have to grow for the new entity
			c := list[0]
			var same, other []int
			for _, s := range m.AliveList() {
				if e := &m.Ents[s]; e.Val[c] == 0 {
					continue // never written: nothing that a copy could get wrong
				} else if e.Mask == 1<<uint(c) {
					same = append(same, s)
				} else if e.Mask&(1<<uint(c)) != 0 {
					other = append(other, s)
				}
			}
			if len(same) == 0 {
				same = other
			}
			if len(same) > 0 {
				op.E = rapid.SampledFrom(same).Draw(t, "aliasSource")
				op.Mode = 7
				op.Vals = []int64{m.Ents[op.E].Val[c]}
			}
		}
		return op
	}
}

func (g *Gen) genNewBatch(t *rapid.T) *Op {
	op := g.genNewBatch0(t)
	// now and then the batch callback opens a query and leaves it open when the operation returns
	m := g.m()
	if g.P.OpenQ && m.OpenQ < min(g.P.MaxOpenQ, 60) && op.N > 0 && (op.P == PWorld && op.Fn || op.P == PMap && op.Init == InitFn) && rapid.IntRange(0, 5).Draw(t, "keepQueryOpen") == 0 {
		var fl []int
		for fi, f := range m.Filters {
			if f.Inst >= 0 && !f.Stale && len(g.qrelComps(f)) == 0 {
				fl = append(fl, fi)
			}
		}
		if len(fl) > 0 {
			g.qSeq++
			op.Acts = append(op.Acts, Op{K: "qOpenKeep", F: rapid.SampledFrom(fl).Draw(t, "keptFilter"), Q: g.qSeq})
		}
	}
	return op
}

func (g *Gen) genNewBatch0(t *rapid.T) *Op {
	op := &Op{K: "newBatch", N: rapid.IntRange(1, 9).Draw(t, "count")}
	if rapid.IntRange(0, 11).Draw(t, "emptyBatch") == 0 {
		op.N = 0 // a batch of zero entities is legal (and still resolves its table and relation targets)
	}
	if g.P.BigBatches && rapid.IntRange(0, 3).Draw(t, "bigBatch") == 0 {
		op.N = rapid.IntRange(60, 90).Draw(t, "bigCount")
	} else if !g.P.BigBatches && !g.bigDone && rapid.IntRange(0, 99).Draw(t, "rareBigBatch") == 50 {
		// every profile: now and then one table beyond 64 / 128 rows (at most once per case, the per-step oracle is linear)
		g.bigDone = true
		op.N = rapid.SampledFrom([]int{63, 64, 65, 70, 127, 128, 129, 140}).Draw(t, "bigCount")
	}
	if rapid.IntRange(0, 4).Draw(t, "batchWorld") == 0 {
		op.P = PWorld
		op.Fn = rapid.Bool().Draw(t, "fn")
		g.nestedActs(t, op)
		return op
	}
	op.P = PMap
	// prefer low arities so that many entities share archetypes
	l := g.preferHot(t, seq(len(MapInsts)), mapMask, "mapper")
	op.M = pickByArity(t, l, func(i int) int { return min(mapArity(i), 5) }, "mapper")
	list := MapInsts[op.M].Comps
	op.Comps = list
	op.Rels = g.relsFor(t, list)
	op.Init = drawInit(t)
	if op.Init != InitNilFn {
		op.Vals = g.vals(len(list))
	}
	if op.Init == InitFn {
		g.nestedActs(t, op)
	}
	return op
}

// nestedActs attaches structural attempts to be made from inside the op's callback.
func (g *Gen) nestedActs(t *rapid.T, op *Op) {
	if !g.P.Nested || rapid.IntRange(0, 2).Draw(t, "nested") != 0 {
		return
	}
	al := g.m().AliveList()
	n := rapid.IntRange(1, 3).Draw(t, "nestedN")
	for i := 0; i < n; i++ {
		kinds := []string{"new", "newBatch", "reset", "removeEntities", "mapNew", "mapNewBatch", "mapAddBatch", "mapRemoveBatch", "exBatch"}
		if len(al) > 0 {
			kinds = append(kinds, "copy", "add", "remove", "exchange", "removeEntity", "mapAdd", "mapRemove", "setRel")
		}
		k := rapid.SampledFrom(kinds).Draw(t, "nestedKind")
		a := Op{K: k}
		if len(al) > 0 {
			a.E = rapid.SampledFrom(al).Draw(t, "nestedEntity")
			e := &g.m().Ents[a.E]
			switch k {
			case "add", "exchange":
				a.Comps = subset(t, ^e.Mask&^comps.RelMask, 1, 2, "nestedAdd")
				if len(a.Comps) == 0 {
					a.K = "copy"
				}
			case "remove":
				a.Rem = subset(t, e.Mask, 1, 1, "nestedRem")
				if len(a.Rem) == 0 {
					a.K = "copy"
				}
			case "setRel":
				rl := listOf(e.Mask & comps.RelMask)
				if len(rl) == 0 {
					a.K = "removeEntity"
				} else {
					a.Rels = []RelSpec{{C: rl[0], T: -1, S: 2}}
				}
			case "mapAdd":
				l := instsWithin(^e.Mask&^comps.RelMask, mapMask, len(MapInsts))
				if len(l) == 0 {
					a.K = "removeEntity"
				} else {
					a.M = rapid.SampledFrom(l).Draw(t, "nestedMapper")
				}
			case "mapRemove":
				l := instsWithin(e.Mask, mapMask, len(MapInsts))
				if len(l) == 0 {
					a.K = "removeEntity"
				} else {
					a.M = rapid.SampledFrom(l).Draw(t, "nestedMapper")
				}
			}
		}
		if k == "mapNew" || k == "mapNewBatch" || k == "mapAddBatch" || k == "mapRemoveBatch" {
			l := instsWithin(^comps.RelMask, mapMask, len(MapInsts))
			a.M = rapid.SampledFrom(l).Draw(t, "nestedMapper")
		}
		if k == "exBatch" {
			a.M = rapid.IntRange(0, len(ExInsts)-1).Draw(t, "nestedExchanger")
			if ExInsts[a.M].Mask&comps.RelMask != 0 {
				a.K, k = "mapRemoveBatch", "mapRemoveBatch"
				a.M = rapid.SampledFrom(instsWithin(^comps.RelMask, mapMask, len(MapInsts))).Draw(t, "nestedMapper")
			}
		}
		if k == "mapAddBatch" || k == "mapRemoveBatch" || k == "exBatch" || k == "removeEntities" {
			// the batch of another filter than the one of the running operation (or of all entities)
			a.F = -1
			var fl []int
			for fi, f := range g.m().Filters {
				if f.Inst >= 0 && !f.Stale {
					fl = append(fl, fi)
				}
			}
			if len(fl) > 0 && rapid.Bool().Draw(t, "nestedFilter") {
				a.F = rapid.SampledFrom(fl).Draw(t, "nestedBatchFilter")
				a.Sub = "f"
			}
		}
		if k == "new" {
			a.P = rapid.SampledFrom([]int{PWorld, PUnsafe}).Draw(t, "nestedNewPath")
			if a.P == PUnsafe {
				a.Comps = subset(t, ^comps.RelMask, 0, 2, "nestedComps")
			}
		}
		op.Acts = append(op.Acts, a)
	}
}

// genAdd draws an add for entity s through a drawn API path.
func (g *Gen) genAdd(t *rapid.T, s int) *Op {
	e := &g.m().Ents[s]
	free := ^e.Mask
	op := &Op{K: "add", E: s}
	path := rapid.IntRange(0, 9).Draw(t, "addPath")
	if free == 0 {
		return g.genRemove(t, s)
	}
	switch {
	case path < 3:
		op.P = PUnsafe
	case path < 8:
		op.P = PMap
		l := instsWithin(free, mapMask, len(MapInsts))
		if len(l) == 0 {
			op.P = PUnsafe
			break
		}
		op.M = pickByArity(t, g.preferHot(t, l, mapMask, "mapper"), mapArity, "mapper")
		op.Comps = MapInsts[op.M].Comps
	default:
		op.P = PEx
		l := instsWithin(free, exMask, len(ExInsts))
		if len(l) == 0 {
			op.P = PUnsafe
			break
		}
		op.M = pickByArity(t, l, exArity, "exchanger")
		op.Comps = ExInsts[op.M].Comps
		op.Rem = subset(t, 0xffff&^ExInsts[op.M].Mask, 0, 2, "exRemoves") // irrelevant for Add
	}
	if op.P == PUnsafe {
		op.Comps = g.biasRel(t, g.hotSubset(t, free, 1, 4, "comps"), ^free)
		op.Rels = g.relsFor(t, op.Comps)
		for i := range op.Rels {
			if op.Rels[i].S == 0 {
				op.Rels[i].S = 2
			}
		}
		if rapid.IntRange(0, 3).Draw(t, "withVals") > 0 {
			op.Vals = g.vals(len(op.Comps))
		}
		if len(op.Rels) == 0 {
			op.Mode = rapid.IntRange(0, 2).Draw(t, "addVariant") // Add / AddRel / Exchange
		} else if rapid.IntRange(0, 3).Draw(t, "viaExchange") == 0 {
			op.Mode = 2
		}
		return op
	}
	op.Rels = g.relsFor(t, op.Comps)
	op.Init = drawInit(t)
	if op.Init != InitNilFn {
		op.Vals = g.vals(len(op.Comps))
	}
	return op
}

func (g *Gen) genRemove(t *rapid.T, s int) *Op {
	e := &g.m().Ents[s]
	op := &Op{K: "remove", E: s}
	if e.Mask == 0 {
		return g.genAdd(t, s)
	}
	path := rapid.IntRange(0, 9).Draw(t, "remPath")
	switch {
	case path < 4:
		op.P = PUnsafe
	case path < 8:
		op.P = PMap
		l := instsWithin(e.Mask, mapMask, len(MapInsts))
		if len(l) == 0 {
			op.P = PUnsafe
			break
		}
		op.M = pickByArity(t, l, mapArity, "mapper")
		op.Rem = MapInsts[op.M].Comps
	default:
		op.P = PEx
		op.M = rapid.IntRange(0, len(ExInsts)-1).Draw(t, "exchanger")
		op.Rem = subset(t, e.Mask&^ExInsts[op.M].Mask, 1, 3, "exRemoves")
		if len(op.Rem) == 0 {
			op.P = PUnsafe
		}
	}
	if op.P == PUnsafe {
		op.Rem = g.hotSubset(t, e.Mask, 1, 3, "rem")
		op.Mode = rapid.SampledFrom([]int{0, 0, 2}).Draw(t, "remVariant")
	}
	return op
}

func (g *Gen) genExchange(t *rapid.T, s int) *Op {
	e := &g.m().Ents[s]
	op := &Op{K: "exchange", E: s}
	free := ^e.Mask
	if rapid.Bool().Draw(t, "exTyped") {
		l := instsWithin(free, exMask, len(ExInsts))
		if len(l) > 0 {
			op.P = PEx
			op.M = pickByArity(t, l, exArity, "exchanger")
			op.Comps = ExInsts[op.M].Comps
			op.Rem = subset(t, e.Mask, 0, 3, "rem")
			op.Rels = g.relsFor(t, op.Comps)
			op.Init = drawInit(t)
			if op.Init != InitNilFn {
				op.Vals = g.vals(len(op.Comps))
			}
			return op
		}
	}
	op.P = PUnsafe
	op.Comps = g.hotSubset(t, free, 0, 3, "add")
	lo := 0
	if len(op.Comps) == 0 {
		lo = 1
	}
	op.Rem = subset(t, e.Mask, lo, 3, "rem")
	if len(op.Comps)+len(op.Rem) == 0 {
		return g.genAdd(t, s)
	}
	op.Mode = 2
	op.Rels = g.relsFor(t, op.Comps)
	for i := range op.Rels {
		if op.Rels[i].S == 0 {
			op.Rels[i].S = 2
		}
	}
	if len(op.Comps) > 0 && rapid.IntRange(0, 3).Draw(t, "withVals") > 0 {
		op.Vals = g.vals(len(op.Comps))
	}
	return op
}

func (g *Gen) genSet(t *rapid.T) *Op {
	m := g.m()
	// entities that own at least one component
	var cand []int
	for _, s := range m.AliveList() {
		if m.Ents[s].Mask != 0 {
			cand = append(cand, s)
		}
	}
	if len(cand) == 0 {
		return &Op{K: "stats"}
	}
	s := rapid.SampledFrom(cand).Draw(t, "entity")
	l := instsWithin(m.Ents[s].Mask, mapMask, len(MapInsts))
	op := &Op{K: "set", E: s, P: PMap}
	op.M = pickByArity(t, l, mapArity, "mapper")
	op.Vals = g.vals(len(MapInsts[op.M].Comps))
	return op
}

func (g *Gen) genWrite(t *rapid.T) *Op {
	m := g.m()
	var cand []int
	for _, s := range m.AliveList() {
		if m.Ents[s].Mask != 0 {
			cand = append(cand, s)
		}
	}
	if len(cand) == 0 {
		return &Op{K: "stats"}
	}
	s := rapid.SampledFrom(cand).Draw(t, "entity")
	c := rapid.SampledFrom(listOf(m.Ents[s].Mask)).Draw(t, "comp")
	op := &Op{K: "write", E: s, Comps: []int{c}, Vals: g.vals(1), Mode: rapid.IntRange(0, 4).Draw(t, "writePath")}
	if op.Mode == 4 {
		var l []int
		for i := range MapInsts {
			if MapInsts[i].Mask&(1<<uint(c)) != 0 {
				l = append(l, i)
			}
		}
		op.M = rapid.SampledFrom(l).Draw(t, "mapper")
	}
	return op
}

func (g *Gen) genSetRel(t *rapid.T) *Op {
	m := g.m()
	var cand []int
	for _, s := range m.AliveList() {
		if hasRel(m.Ents[s].Mask) {
			cand = append(cand, s)
		}
	}
	if len(cand) == 0 {
		// create an entity with a relation instead
		return &Op{K: "new", P: PUnsafe, Comps: []int{comps.IR1}, Rels: []RelSpec{{C: comps.IR1, T: g.pickTarget(t), S: 2}}}
	}
	s := rapid.SampledFrom(cand).Draw(t, "entity")
	e := &m.Ents[s]
	op := &Op{K: "setRel", E: s}
	rl := subset(t, e.Mask&comps.RelMask, 1, 3, "rels")
	if rapid.Bool().Draw(t, "typed") {
		// a mapper containing all chosen relation components
		var l []int
		for i := range MapInsts {
			if MapInsts[i].Mask&maskOf(rl) == maskOf(rl) {
				if i < comps.N && len(rl) != 1 {
					continue
				}
				l = append(l, i)
			}
		}
		if len(l) > 0 {
			op.P = PMap
			op.M = pickByArity(t, l, mapArity, "mapper")
		}
	}
	if op.P != PMap {
		op.P = PUnsafe
	}
	for _, c := range rl {
		tg := g.pickTarget(t)
		if rapid.IntRange(0, 4).Draw(t, "sameTarget") == 0 {
			tg = e.Tgt[c]
		}
		st := rapid.IntRange(0, 2).Draw(t, "relStyle")
		if op.P == PUnsafe && st == 0 {
			st = 2
		}
		op.Rels = append(op.Rels, RelSpec{C: c, T: tg, S: st})
	}
	return op
}

// genFilter draws a filter specification.
func (g *Gen) genFilter(t *rapid.T) *Op {
	fs := &FilterSpec{}
	if g.hot != 0 && rapid.IntRange(0, 2).Draw(t, "broadFilter") != 0 {
		// a broad filter over the case's hot components: Filter0/Filter1 with 0-2 hot components, at most one excluded
		fs.Inst = 0
		var l []int
		for i := range FilterInsts {
			if FilterInsts[i].Arity == 1 && FilterInsts[i].Mask&^g.hot == 0 {
				l = append(l, i)
			}
		}
		if len(l) > 0 && rapid.Bool().Draw(t, "arity1") {
			fs.Inst = rapid.SampledFrom(l).Draw(t, "filterInst")
		}
		fs.With = subset(t, g.hot&^FilterInsts[fs.Inst].Mask, 0, 1, "with")
		if rapid.IntRange(0, 2).Draw(t, "exclude") == 0 {
			fs.Without = subset(t, g.hot&^fs.Mask(), 1, 1, "without")
		}
		for _, c := range listOf(fs.Mask() & comps.RelMask) {
			if g.fixedRel(t) {
				fs.Rels = append(fs.Rels, RelSpec{C: c, T: g.pickTarget(t), S: rapid.IntRange(0, 2).Draw(t, "relStyle")})
			}
		}
		return g.chainRels(t, &Op{K: "filterNew", FS: fs})
	}
	if rapid.IntRange(0, 5).Draw(t, "unsafeFilter") == 0 {
		fs.Inst = -1
		fs.UComps = g.hotSubset(t, 0xffff, 0, 3, "ucomps")
	} else {
		// bias to low arities, which match more entities
		ar := rapid.SampledFrom([]int{0, 0, 1, 1, 1, 2, 2, 2, 3, 3, 4, 5, 6, 7, 8}).Draw(t, "arity")
		var l []int
		for i := range FilterInsts {
			if FilterInsts[i].Arity == ar {
				l = append(l, i)
			}
		}
		l = g.preferHot(t, l, func(i int) uint16 { return FilterInsts[i].Mask }, "filter")
		fs.Inst = rapid.SampledFrom(l).Draw(t, "filterInst")
		fs.With = g.hotSubset(t, ^FilterInsts[fs.Inst].Mask, 0, 2, "with")
	}
	mask := fs.Mask()
	switch rapid.IntRange(0, 5).Draw(t, "exclude") {
	case 0:
		fs.Exclusive = true
	case 1, 2:
		fs.Without = g.hotSubset(t, ^mask, 1, 3, "without")
	}
	if fs.Inst >= 0 {
		for _, c := range listOf(mask & comps.RelMask) {
			if g.fixedRel(t) {
				fs.Rels = append(fs.Rels, RelSpec{C: c, T: g.pickTarget(t), S: rapid.IntRange(0, 2).Draw(t, "relStyle")})
			}
		}
	}
	return g.chainRels(t, &Op{K: "filterNew", FS: fs})
}

func (g *Gen) genFilterReg(t *rapid.T) *Op {
	m := g.m()
	var l []int
	for i, f := range m.Filters {
		if f.Inst >= 0 && !f.Stale {
			l = append(l, i)
		}
	}
	fi := rapid.SampledFrom(l).Draw(t, "filter")
	// prefer the filter of a query that is open right now (its cache entry is in use while it is unregistered, or
	// while another filter takes its place in the cache)
	var busy []int
	for _, q := range m.Open {
		if !q.done && m.Filters[q.filter].Inst >= 0 && !m.Filters[q.filter].Stale {
			busy = append(busy, q.filter)
		}
	}
	sortInts(busy)
	if len(busy) > 0 && rapid.Bool().Draw(t, "filterOfOpenQuery") {
		fi = rapid.SampledFrom(busy).Draw(t, "busyFilter")
	}
	mode := 1
	if m.Filters[fi].Registered {
		mode = 0
	}
	op := &Op{K: "filterReg", F: fi, Mode: mode}
	if rapid.IntRange(0, 19).Draw(t, "registrationCycles") == 10 {
		op.N = rapid.SampledFrom([]int{15, 16, 17, 127, 128, 129, 255, 256, 257, 300}).Draw(t, "cycles")
	}
	return op
}

// qrels draws per-query relation targets for relation components of the filter that are not fixed.
func (g *Gen) qrels(t *rapid.T, f *FilterSpec) []RelSpec {
	var rs []RelSpec
	fixed := uint16(0)
	for _, r := range f.Rels {
		fixed |= 1 << uint(r.C)
	}
	m := g.m()
	for _, c := range listOf(f.Mask() & comps.RelMask &^ fixed) {
		if rapid.IntRange(0, 1).Draw(t, "qrel") != 0 {
			continue
		}
		// prefer targets actually in use
		var used []int
		for _, s := range m.AliveList() {
			e := &m.Ents[s]
			if e.Mask&(1<<uint(c)) != 0 {
				used = append(used, e.Tgt[c])
			}
		}
		tg := g.pickTarget(t)
		if len(used) > 0 && rapid.IntRange(0, 3).Draw(t, "usedTarget") > 0 {
			tg = rapid.SampledFrom(used).Draw(t, "qtarget")
		}
		st := rapid.IntRange(0, 2).Draw(t, "relStyle")
		if f.Inst < 0 && st == 0 {
			st = 2
		}
		rs = append(rs, RelSpec{C: c, T: tg, S: st})
	}
	return rs
}

func (g *Gen) genQuery(t *rapid.T) *Op {
	m := g.m()
	var l []int
	for i, f := range m.Filters {
		if !f.Stale {
			l = append(l, i)
		}
	}
	fi := rapid.SampledFrom(l).Draw(t, "filter")
	return &Op{K: "query", F: fi, QRels: g.qrels(t, m.Filters[fi])}
}

// genBatch draws a batch operation that is applicable to every selected entity.
func (g *Gen) genBatch(t *rapid.T, k string) *Op {
	m := g.m()
	var l []int
	for i, f := range m.Filters {
		if f.Inst >= 0 && !f.Stale {
			l = append(l, i)
		}
	}
	if rapid.IntRange(0, 4).Draw(t, "nonEmptyBatch") != 0 {
		var ne []int
		for _, i := range l {
			if len(m.Select(m.Filters[i], nil)) > 0 {
				ne = append(ne, i)
			}
		}
		if len(ne) > 0 {
			l = ne
		}
	}
	fi := rapid.SampledFrom(l).Draw(t, "filter")
	f := m.Filters[fi]
	op := &Op{K: k, F: fi, Fn: rapid.Bool().Draw(t, "fn")}
	if rapid.IntRange(0, 2).Draw(t, "batchQRels") == 0 {
		op.QRels = g.qrels(t, f)
	}
	sel := m.Select(f, op.QRels)
	var union uint16
	common := uint16(0xffff)
	for _, s := range sel {
		union |= m.Ents[s].Mask
		common &= m.Ents[s].Mask
	}
	if len(sel) == 0 {
		common = f.Mask()
		union = 0xffff
		if f.Exclusive {
			union = f.Mask()
		}
	}
	switch k {
	case "removeEntities":
		g.nestedActs(t, op)
		return op
	case "setRelBatch":
		rl := subset(t, common&comps.RelMask, 1, 2, "rels")
		if len(rl) == 0 {
			op.K = "removeEntities"
			return op
		}
		var ml []int
		for i := range MapInsts {
			if MapInsts[i].Mask&maskOf(rl) == maskOf(rl) && !(i < comps.N && len(rl) != 1) {
				ml = append(ml, i)
			}
		}
		op.P = PMap
		op.M = pickByArity(t, ml, mapArity, "mapper")
		for _, c := range rl {
			op.Rels = append(op.Rels, RelSpec{C: c, T: g.pickTarget(t), S: rapid.IntRange(0, 2).Draw(t, "relStyle")})
		}
		if op.Fn {
			g.nestedActs(t, op)
		}
		return op
	case "addBatch":
		free := ^union
		typed := rapid.Bool().Draw(t, "viaMap")
		var il []int
		if typed {
			il = instsWithin(free, mapMask, len(MapInsts))
		} else {
			il = instsWithin(free, exMask, len(ExInsts))
		}
		if len(il) == 0 {
			typed = !typed
			if typed {
				il = instsWithin(free, mapMask, len(MapInsts))
			} else {
				il = instsWithin(free, exMask, len(ExInsts))
			}
		}
		if len(il) == 0 {
			op.K = "removeEntities"
			return op
		}
		masks := exMask
		if typed {
			masks = mapMask
		}
		// prefer components the filter excludes (the destination then already holds entities) and relation components
		if wo := maskOf(f.Without); wo != 0 && rapid.IntRange(0, 2).Draw(t, "addExcluded") != 0 {
			var pl []int
			for _, i := range il {
				if masks(i)&^wo == 0 {
					pl = append(pl, i)
				}
			}
			if len(pl) > 0 {
				il = pl
			}
		} else if g.P.RelBias > 0 && rapid.IntRange(0, 99).Draw(t, "addRelBias") < g.P.RelBias {
			var pl []int
			for _, i := range il {
				if masks(i)&comps.RelMask != 0 {
					pl = append(pl, i)
				}
			}
			if len(pl) > 0 {
				il = pl
			}
		}
		il = g.preferHot(t, il, masks, "batchInst")
		if typed {
			op.P = PMap
			op.M = pickByArity(t, il, func(i int) int { return min(mapArity(i), 4) }, "mapper")
			op.Comps = MapInsts[op.M].Comps
		} else {
			op.P = PEx
			op.M = pickByArity(t, il, func(i int) int { return min(exArity(i), 4) }, "exchanger")
			op.Comps = ExInsts[op.M].Comps
		}
		op.Rels = g.relsFor(t, op.Comps)
		op.Init = drawInit(t)
		if op.Init != InitNilFn {
			op.Vals = g.vals(len(op.Comps))
		}
		if op.Init == InitFn {
			g.nestedActs(t, op)
		}
		return op
	case "removeBatch":
		if common == 0 {
			op.K = "removeEntities"
			return op
		}
		if rapid.Bool().Draw(t, "viaMap") {
			il := instsWithin(common, mapMask, len(MapInsts))
			if len(il) > 0 {
				op.P = PMap
				op.M = pickByArity(t, il, mapArity, "mapper")
				op.Rem = MapInsts[op.M].Comps
				if op.Fn {
					g.nestedActs(t, op)
				}
				return op
			}
		}
		op.P = PEx
		op.M = rapid.IntRange(0, len(ExInsts)-1).Draw(t, "exchanger")
		op.Rem = subset(t, common, 1, 3, "rem")
		if op.Fn {
			g.nestedActs(t, op)
		}
		return op
	default: // exchangeBatch
		il := instsWithin(^union, exMask, len(ExInsts))
		if len(il) == 0 {
			op.K = "removeEntities"
			return op
		}
		op.P = PEx
		op.M = pickByArity(t, il, func(i int) int { return min(exArity(i), 4) }, "exchanger")
		op.Comps = ExInsts[op.M].Comps
		op.Rem = subset(t, common, 0, 3, "rem")
		op.Rels = g.relsFor(t, op.Comps)
		op.Init = drawInit(t)
		if op.Init != InitNilFn {
			op.Vals = g.vals(len(op.Comps))
		}
		if op.Init == InitFn {
			g.nestedActs(t, op)
		}
		return op
	}
}

// genObs draws an observer specification.
func (g *Gen) genObs(t *rapid.T) *Op {
	os := &ObsSpec{Inst: -1}
	m := g.m()
	os.Ev = rapid.SampledFrom([]int{EvCreate, EvRemoveEntity, EvAddComps, EvAddComps, EvRemoveComps, EvRemoveComps, EvSetComps, EvAddRels, EvRemoveRels, EvCustom0, EvCustom1}).Draw(t, "event")
	if len(m.Obs) > 0 && rapid.Bool().Draw(t, "sameEvent") {
		os.Ev = rapid.SampledFrom(m.Obs).Draw(t, "like").Ev
	}
	relEv := os.Ev == EvAddRels || os.Ev == EvRemoveRels
	allowed := uint16(0xffff)
	if relEv {
		allowed = comps.RelMask
	}
	if rapid.IntRange(0, 2).Draw(t, "typedObs") == 0 {
		l := instsWithin(allowed, func(i int) uint16 { return ObsInsts[i].Mask }, len(ObsInsts))
		if len(l) > 0 {
			os.Inst = pickByArity(t, l, func(i int) int { return ObsInsts[i].Arity }, "obsInst")
		}
	}
	c := os.C()
	nFor := rapid.SampledFrom([]int{0, 0, 0, 1, 1, 1, 1, 2, 2}).Draw(t, "nFor")
	if os.Inst >= 0 {
		nFor = rapid.SampledFrom([]int{0, 0, 0, 1}).Draw(t, "nForTyped")
	}
	os.For = subset(t, allowed&^c, nFor, nFor, "for")
	c = os.C()
	nWith := rapid.SampledFrom([]int{0, 0, 0, 0, 1, 1, 2}).Draw(t, "nWith")
	os.With = subset(t, 0xffff&^c, nWith, nWith, "with")
	switch rapid.IntRange(0, 9).Draw(t, "exclude") {
	case 0:
		os.Exclusive = true
	case 1, 2, 3:
		os.Without = subset(t, 0xffff&^c&^maskOf(os.With), 1, 2, "without")
	}
	if rapid.IntRange(0, 7).Draw(t, "unregInCb") == 0 || removalEvent(os.Ev) && rapid.IntRange(0, 3).Draw(t, "oneShotRemovalObserver") == 0 {
		os.UnregP1 = 1 + rapid.IntRange(0, len(g.m().Obs)).Draw(t, "unregWhom")
		if removalEvent(os.Ev) && rapid.Bool().Draw(t, "oneShot") {
			os.UnregP1 = 1 + len(g.m().Obs) // a one-shot observer: it unregisters itself in its first callback
		}
	}
	os.Order = rapid.IntRange(0, 3).Draw(t, "builderOrder")
	os.Reenter = !removalEvent(os.Ev) && g.It.M.Reg&comps.RelMask == comps.RelMask && rapid.IntRange(0, 5).Draw(t, "reentrantCallback") == 0
	return &Op{K: "obsNew", OS: os, Mode: rapid.SampledFrom([]int{1, 1, 1, 0}).Draw(t, "registerNow")}
}

func (g *Gen) genObsReg(t *rapid.T) *Op {
	m := g.m()
	j := rapid.IntRange(0, len(m.Obs)-1).Draw(t, "observer")
	mode := 1
	if m.Obs[j].Registered {
		mode = 0
		// unregister less often than register
		if rapid.IntRange(0, 2).Draw(t, "reallyUnregister") != 0 {
			for k, o := range m.Obs {
				if !o.Registered {
					return &Op{K: "obsReg", Q: k, Mode: 1}
				}
			}
		}
	}
	op := &Op{K: "obsReg", Q: j, Mode: mode}
	if rapid.IntRange(0, 19).Draw(t, "registrationCycles") == 10 {
		op.N = rapid.SampledFrom([]int{15, 16, 17, 31, 32, 33, 63, 64, 65, 66, 129, 140}).Draw(t, "cycles")
	}
	return op
}

func (g *Gen) genEmit(t *rapid.T) *Op {
	m := g.m()
	op := &Op{K: "emit", Mode: rapid.SampledFrom([]int{EvCustom0, EvCustom1}).Draw(t, "event"), E: -1}
	al := m.AliveList()
	if len(al) > 0 && rapid.IntRange(0, 4).Draw(t, "zeroEntity") != 0 {
		op.E = rapid.SampledFrom(al).Draw(t, "entity")
		op.Comps = subset(t, m.Ents[op.E].Mask, 0, 3, "evComps")
	}
	return op
}

func (g *Gen) genQNext(t *rapid.T) *Op {
	m := g.m()
	var l []int
	for id, q := range m.Open {
		if !q.done {
			l = append(l, id)
		}
	}
	sortInts(l)
	if len(l) == 0 || rapid.IntRange(0, 7).Draw(t, "nextOnFinished") == 0 {
		var done []int
		for id, q := range m.Open {
			if q.done {
				done = append(done, id)
			}
		}
		sortInts(done)
		if len(done) > 0 {
			// a caller that goes on with a finished query (and recovers); often followed by closing it again
			id := rapid.SampledFrom(done).Draw(t, "finishedQuery")
			if rapid.Bool().Draw(t, "thenCloseAgain") {
				g.queue = []*Op{{K: "qClose", Q: id}}
			}
			return &Op{K: "qNext", Q: id, N: rapid.IntRange(1, 2).Draw(t, "steps")}
		}
	}
	if len(l) == 0 {
		return &Op{K: "stats"}
	}
	id := rapid.SampledFrom(l).Draw(t, "openQuery")
	n := rapid.IntRange(1, 4).Draw(t, "steps")
	if rapid.IntRange(0, 3).Draw(t, "exhaust") == 0 {
		n = 1000
	}
	return &Op{K: "qNext", Q: id, N: n}
}

func (g *Gen) genQClose(t *rapid.T) *Op {
	m := g.m()
	var open, done []int
	for id, q := range m.Open {
		if q.done {
			done = append(done, id)
		} else {
			open = append(open, id)
		}
	}
	sortInts(open)
	sortInts(done)
	if len(open) == 0 || (len(done) > 0 && rapid.IntRange(0, 4).Draw(t, "closeAgain") == 0) {
		return &Op{K: "qClose", Q: rapid.SampledFrom(done).Draw(t, "closedQuery")}
	}
	return &Op{K: "qClose", Q: rapid.SampledFrom(open).Draw(t, "openQuery")}
}

func sortInts(l []int) {
	for i := 1; i < len(l); i++ {
		for j := i; j > 0 && l[j] < l[j-1]; j-- {
			l[j], l[j-1] = l[j-1], l[j]
		}
	}
}

// genRead draws a checked read through a drawn access path (dead handles are drawn in the misuse profile).
func (g *Gen) genRead(t *rapid.T) *Op {
	m := g.m()
	op := &Op{K: "read", Mode: rapid.IntRange(0, 9).Draw(t, "readCall"), E: -1}
	var cand []int
	for s := range m.Ents {
		if m.Ents[s].Alive || g.P.Misuse {
			cand = append(cand, s)
		}
	}
	if len(cand) == 0 {
		if !g.P.Misuse {
			return &Op{K: "stats"}
		}
	} else if !g.P.Misuse || rapid.IntRange(0, 5).Draw(t, "zero") != 0 {
		op.E = rapid.SampledFrom(cand).Draw(t, "entity")
	}
	op.Comps = []int{rapid.IntRange(0, comps.N-1).Draw(t, "comp")}
	op.M = rapid.IntRange(0, len(MapInsts)-1).Draw(t, "mapper")
	op.N = rapid.IntRange(0, 11).Draw(t, "pos")
	if m.alive(op.E) && rapid.IntRange(0, 5).Draw(t, "uncheckedRelation") == 0 {
		// unchecked relation accessors, on alive entities only; aim at components the entity has
		op.Mode = 10 + rapid.IntRange(0, 1).Draw(t, "uncheckedKind")
		e := &m.Ents[op.E]
		if rl := listOf(e.Mask & comps.RelMask); len(rl) > 0 && rapid.IntRange(0, 3).Draw(t, "hasIt") != 0 {
			op.Comps = []int{rapid.SampledFrom(rl).Draw(t, "relComp")}
			var l []int
			for i := 2 * comps.N; i < len(MapInsts); i++ {
				if MapInsts[i].Mask&(1<<uint(op.Comps[0])) != 0 {
					l = append(l, i)
				}
			}
			if op.Mode == 11 && len(l) > 0 {
				op.M = rapid.SampledFrom(l).Draw(t, "relMapper")
				for j, cc := range MapInsts[op.M].Comps {
					if cc == op.Comps[0] {
						op.N = j
					}
				}
			}
		}
	}
	return op
}

func liveFilters(m *Model) []int {
	var l []int
	for i, f := range m.Filters {
		if !f.Stale {
			l = append(l, i)
		}
	}
	return l
}

// biasRel adds a relation component (not in forbidden) with the profile's probability.
func (g *Gen) biasRel(t *rapid.T, list []int, forbidden uint16) []int {
	if g.P.RelBias == 0 || rapid.IntRange(0, 99).Draw(t, "relBias") >= g.P.RelBias {
		return list
	}
	have := maskOf(list)
	cand := listOf(comps.RelMask &^ have &^ forbidden)
	if len(cand) == 0 {
		return list
	}
	return append(list, rapid.SampledFrom(cand).Draw(t, "biasRelComp"))
}

// hotSubset draws like subset but, three times out of four, only among the case's hot components.
func (g *Gen) hotSubset(t *rapid.T, mask uint16, lo, hi int, label string) []int {
	if g.hot != 0 && mask&g.hot != 0 && rapid.IntRange(0, 3).Draw(t, label+"Hot") != 0 {
		if l := subset(t, mask&g.hot, lo, hi, label); len(l) >= lo {
			return l
		}
	}
	return subset(t, mask, lo, hi, label)
}

// preferHot narrows a list of instantiations to those whose components are all hot (half of the time, if any).
func (g *Gen) preferHot(t *rapid.T, l []int, masks func(i int) uint16, label string) []int {
	if g.hot == 0 || !rapid.Bool().Draw(t, label+"PreferHot") {
		return l
	}
	var h []int
	for _, i := range l {
		if masks(i)&^g.hot == 0 {
			h = append(h, i)
		}
	}
	if len(h) > 0 {
		return h
	}
	return l
}

// DrawHot draws the hot component set of a case: 4-7 components with at least one relation component.
func (g *Gen) DrawHot(t *rapid.T) {
	l := subset(t, 0xffff&^comps.RelMask, 3, 5, "hotComps")
	r := subset(t, comps.RelMask, 1, 2, "hotRels")
	g.hot = maskOf(l) | maskOf(r)
}

// fixup resolves placeholders of queued scenario ops against the current model (filter index of the scenario).
func (g *Gen) fixup(op *Op) *Op {
	if op.F == -1 {
		op.F = len(g.m().Filters) - 1
	}
	return op
}

// genScenario emits a multi-step scenario that ends in a batch operation over a drawn typed mapper/exchange of ANY
// arity, with >= 1 selected entity, several source tables and a destination table that already holds entities:
//  1. a filter With(S) Without(first added component)
//  2. 1-3 entities that already have S and the components to be added (the destination table)
//  3. 1-4 entities with S (and sometimes one extra component: a second source table)
//  4. the batch operation through the drawn instantiation.
func (g *Gen) genScenario(t *rapid.T) *Op {
	if k := rapid.IntRange(0, 7).Draw(t, "relationScenario"); k >= 6 {
		if op := g.genIDPoolScenario(t, k == 7); op != nil {
			return op
		}
	} else if k == 0 {
		if op := g.genRelCycle(t); op != nil {
			return op
		}
	} else if k == 1 {
		if op := g.genRelScenario(t); op != nil {
			return op
		}
	}
	useEx := rapid.IntRange(0, 2).Draw(t, "scenarioViaExchange") == 0
	var inst int
	var list []int
	if useEx {
		inst = pickByArity(t, seq(len(ExInsts)), exArity, "exchanger")
		list = ExInsts[inst].Comps
	} else {
		inst = pickByArity(t, seq(len(MapInsts)), mapArity, "mapper")
		list = MapInsts[inst].Comps
	}
	am := maskOf(list)
	base := subset(t, 0xffff&^am&^comps.RelMask, 0, 2, "scenarioBase")
	extra := subset(t, 0xffff&^am&^maskOf(base)&^comps.RelMask, 1, 1, "scenarioExtra")
	var rels []RelSpec
	tgt := g.pickTarget(t)
	for _, c := range list {
		if comps.All[c].Relation {
			rels = append(rels, RelSpec{C: c, T: tgt, S: rapid.IntRange(0, 2).Draw(t, "relStyle")})
		}
	}
	urels := make([]RelSpec, len(rels))
	for i, r := range rels {
		urels[i] = RelSpec{C: r.C, T: r.T, S: 2}
	}
	var q []*Op
	q = append(q, &Op{K: "filterNew", FS: &FilterSpec{Inst: 0, With: base, Without: []int{list[0]}}})
	nDest := rapid.IntRange(1, 3).Draw(t, "scenarioDest")
	for i := 0; i < nDest; i++ {
		cl := append(append([]int{}, base...), list...)
		q = append(q, &Op{K: "new", P: PUnsafe, Comps: cl, Vals: g.vals(len(cl)), Rels: urels})
	}
	nSrc := rapid.IntRange(1, 4).Draw(t, "scenarioSrc")
	exact := 0
	if len(base) == 1 && !g.bigDone && rapid.IntRange(0, 5).Draw(t, "scenarioExactRows") == 0 {
		// the source table holds exactly 63 / 64 / 65 / ... rows when the batch empties it as a whole; afterwards two
		// entities are put into it without initial values (they must read as zero)
		g.bigDone = true
		exact = rapid.SampledFrom([]int{63, 64, 64, 65, 127, 128, 129}).Draw(t, "exactRows")
		for _, e := range g.m().Ents {
			if e.Alive && e.Mask == maskOf(base) {
				exact-- // rows that are there already
			}
		}
		if exact > 0 {
			q = append(q, &Op{K: "newBatch", P: PMap, M: base[0], Comps: base, N: exact, Init: InitVal, Vals: g.vals(1)})
			nSrc = 0
		}
	}
	for i := 0; i < nSrc; i++ {
		cl := append([]int{}, base...)
		if len(extra) > 0 && rapid.IntRange(0, 2).Draw(t, "scenarioSecondTable") == 0 {
			cl = append(cl, extra...)
		}
		op := &Op{K: "new", P: PUnsafe, Comps: cl}
		if len(cl) > 0 {
			op.Vals = g.vals(len(cl))
		}
		q = append(q, op)
	}
	b := &Op{K: "addBatch", F: -1, Comps: list, Rels: rels, Init: drawInit(t), Fn: true}
	if useEx {
		b.P = PEx
		b.M = inst
		if rapid.Bool().Draw(t, "scenarioExchange") && len(base) > 0 {
			b.K = "exchangeBatch"
			b.Rem = base[:1]
		}
	} else {
		b.P = PMap
		b.M = inst
	}
	if b.Init != InitNilFn {
		b.Vals = g.vals(len(list))
	}
	q = append(q, b)
	// sometimes follow up with the inverse batch removal through the same filter family
	if !useEx && rapid.Bool().Draw(t, "scenarioRemoveAfter") {
		q = append(q, &Op{K: "filterNew", FS: &FilterSpec{Inst: 0, With: append(append([]int{}, base...), list[0])}})
		q = append(q, &Op{K: "removeBatch", F: -1, P: PMap, M: inst, Rem: list, Fn: rapid.Bool().Draw(t, "fn")})
	}
	if exact > 0 {
		q = append(q, &Op{K: "new", P: PUnsafe, Comps: base}, &Op{K: "new", P: PUnsafe, Comps: base})
	}
	g.queue = q[1:]
	return q[0]
}

// genBatchCall draws a Filter.Batch(rel...) call whose result is discarded.
func (g *Gen) genBatchCall(t *rapid.T) *Op {
	m := g.m()
	var l, lr []int
	for i, f := range m.Filters {
		if f.Inst >= 0 && !f.Stale {
			l = append(l, i)
			if f.Mask()&comps.RelMask != 0 {
				lr = append(lr, i)
			}
		}
	}
	if len(lr) > 0 {
		l = lr
	}
	fi := rapid.SampledFrom(l).Draw(t, "filter")
	f := m.Filters[fi]
	op := &Op{K: "batchCall", F: fi}
	fixed := uint16(0)
	for _, r := range f.Rels {
		fixed |= 1 << uint(r.C)
	}
	for _, c := range listOf(f.Mask() & comps.RelMask &^ fixed) {
		op.QRels = append(op.QRels, RelSpec{C: c, T: g.pickTarget(t), S: rapid.IntRange(0, 2).Draw(t, "relStyle")})
	}
	return op
}

// genRelScenario emits a scenario around SetRelationsBatch with two relation components: several entities of one
// archetype spread over tables with different target pairs, an observer on one of the relation components, then a
// batch that sets both relations, so that per table a different subset of the relations actually changes.
func (g *Gen) genRelScenario(t *rapid.T) *Op {
	m := g.m()
	if len(m.Obs) >= 8 || len(m.AliveList()) > g.P.MaxEnts-8 {
		return nil
	}
	// a mapper that contains two relation components
	var cands []int
	for i := 2 * comps.N; i < len(MapInsts); i++ {
		if len(listOf(MapInsts[i].Mask&comps.RelMask)) >= 2 {
			cands = append(cands, i)
		}
	}
	if len(cands) == 0 {
		return nil
	}
	inst := rapid.SampledFrom(cands).Draw(t, "relMapper")
	rl := listOf(MapInsts[inst].Mask & comps.RelMask)
	ra, rb := rl[0], rl[1]
	if rapid.Bool().Draw(t, "swapRel") {
		ra, rb = rb, ra
	}
	base := subset(t, 0xffff&^comps.RelMask, 0, 1, "relScenarioBase")
	n0 := len(m.Ents)
	var q []*Op
	// two fresh targets
	q = append(q, &Op{K: "new", P: PWorld}, &Op{K: "new", P: PWorld})
	tg := []int{n0, n0 + 1, -1}
	q = append(q, &Op{K: "filterNew", FS: &FilterSpec{Inst: 0, With: append(append([]int{}, base...), ra, rb)}})
	ev := rapid.SampledFrom([]int{EvAddRels, EvRemoveRels}).Draw(t, "relObsEvent")
	q = append(q, &Op{K: "obsNew", OS: &ObsSpec{Inst: -1, Ev: ev, For: []int{ra}}, Mode: 1})
	cnt := rapid.IntRange(2, 5).Draw(t, "relScenarioEntities")
	for i := 0; i < cnt; i++ {
		cl := append(append([]int{}, base...), ra, rb)
		op := &Op{K: "new", P: PUnsafe, Comps: cl, Vals: g.vals(len(cl)), Rels: []RelSpec{
			{C: ra, T: rapid.SampledFrom(tg).Draw(t, "ta"), S: 2}, {C: rb, T: rapid.SampledFrom(tg).Draw(t, "tb"), S: 2}}}
		q = append(q, op)
	}
	fixed := -1
	if len(m.Filters) < 6 && rapid.Bool().Draw(t, "relScenarioFixedFilter") {
		// a second filter with a permanent target for one of the two relations, created and registered only now that
		// several tables of the archetype exist (the initial fill of the cache entry), and queried with and without a
		// target for the other relation
		fixed = len(m.Filters) + 1
		ft := rapid.SampledFrom(tg[:2]).Draw(t, "fixedTarget")
		q = append(q, &Op{K: "filterNew", FS: &FilterSpec{Inst: 0, With: append(append([]int{}, base...), ra, rb), Rels: []RelSpec{{C: ra, T: ft, S: 2}}}})
		if rapid.IntRange(0, 3).Draw(t, "relScenarioFixedCached") != 0 {
			q = append(q, &Op{K: "filterReg", F: fixed, Mode: 1})
		}
		q = append(q, &Op{K: "query", F: fixed})
		q = append(q, &Op{K: "query", F: fixed, QRels: []RelSpec{{C: rb, T: rapid.SampledFrom(tg[:2]).Draw(t, "queryTarget"), S: 2}}})
		g.It.count("two-relation-archetype-filter-with-permanent-target")
	}
	b := &Op{K: "setRelBatch", F: -1, P: PMap, M: inst, Fn: rapid.Bool().Draw(t, "fn"), Rels: []RelSpec{
		{C: ra, T: rapid.SampledFrom(tg).Draw(t, "newTa"), S: rapid.IntRange(0, 2).Draw(t, "relStyle")},
		{C: rb, T: rapid.SampledFrom(tg).Draw(t, "newTb"), S: rapid.IntRange(0, 2).Draw(t, "relStyle")}}}
	if rapid.Bool().Draw(t, "relsReversed") {
		b.Rels[0], b.Rels[1] = b.Rels[1], b.Rels[0]
	}
	q = append(q, b)
	if fixed >= 0 {
		q = append(q, &Op{K: "query", F: fixed})
	}
	g.queue = q[1:]
	return q[0]
}

// genRelCycle emits the life cycle of one relation table: children of a fresh target P are created, the table is
// vacated while P stays alive (children removed, relation component removed, or re-targeted), Shrink may free it, the
// (archetype, P) combination is populated again (recycling a freed table), and P is removed at some point. A cached
// filter with the fixed target P and uncached queries watch the table all the time (through the per-step oracle).
func (g *Gen) genRelCycle(t *rapid.T) *Op {
	m := g.m()
	if len(m.AliveList()) > g.P.MaxEnts-10 || len(m.Filters) >= 8 {
		return nil
	}
	r := rapid.SampledFrom(listOf(comps.RelMask)).Draw(t, "cycleRel")
	base := subset(t, 0xffff&^comps.RelMask, 0, 1, "cycleBase")
	cl := append(append([]int{}, base...), r)
	n0 := len(m.Ents)
	tgt := n0
	next := n0 + 1
	q := []*Op{{K: "new", P: PWorld}}
	mkChild := func(of int) {
		q = append(q, &Op{K: "new", P: PUnsafe, Comps: cl, Vals: g.vals(len(cl)), Rels: []RelSpec{{C: r, T: of, S: 2}}})
		next++
	}
	other := -1
	if rapid.Bool().Draw(t, "cycleSecondTarget") {
		q = append(q, &Op{K: "new", P: PWorld})
		other = next
		next++
		mkChild(other)
	}
	var children []int
	if len(base) == 0 && rapid.IntRange(0, 1).Draw(t, "cycleViaSetRelation") == 0 {
		// the table of (r, target) comes into being through a batch of zero entities; the children are created with the
		// zero target and attached to the target by SetRelation only
		g.It.count("relation-cycle-attached-by-setrelation-only")
		if len(m.Obs) < 11 && m.Reg&comps.RelMask == comps.RelMask && rapid.Bool().Draw(t, "cycleObserver") {
			g.It.count("relation-cycle-with-reentrant-observer")
			// an observer of the relation assignment whose callback changes the world itself (through the mapper in use)
			q = append(q, &Op{K: "obsNew", Mode: 1, OS: &ObsSpec{Inst: -1, Ev: EvAddRels, For: []int{r}, Reenter: true}})
		}
		q = append(q, &Op{K: "newBatch", P: PMap, M: r, Comps: []int{r}, N: 0, Init: InitVal, Vals: g.vals(1), Rels: []RelSpec{{C: r, T: tgt, S: rapid.IntRange(0, 2).Draw(t, "relStyle")}}})
		if rapid.IntRange(0, 3).Draw(t, "cycleEmptyBatchOnly") == 0 {
			// the empty batch is the only operation that ever names the target: when the target dies the table has to go
			// (or at least must not serve a later call that names the dead entity: that call must be rejected)
			g.It.count("relation-cycle-target-named-by-an-empty-batch-only")
			q = append(q, &Op{K: "removeEntity", E: tgt})
			q = append(q, &Op{K: "new", P: PUnsafe, Comps: cl, Vals: g.vals(len(cl)), Rels: []RelSpec{{C: r, T: tgt, S: 2}}})
			g.queue = q[1:]
			return q[0]
		}
		for i, k := 0, rapid.IntRange(1, 3).Draw(t, "cycleChildren"); i < k; i++ {
			children = append(children, next)
			mkChild(-1)
			if rapid.Bool().Draw(t, "cycleSetRelTyped") {
				q = append(q, &Op{K: "setRel", E: next - 1, P: PMap, M: r, Rels: []RelSpec{{C: r, T: tgt, S: rapid.IntRange(0, 1).Draw(t, "relStyle")}}})
			} else {
				q = append(q, &Op{K: "setRel", E: next - 1, P: PUnsafe, Rels: []RelSpec{{C: r, T: tgt, S: 2}}})
			}
		}
		if rapid.Bool().Draw(t, "cycleRemoveTargetAtOnce") {
			// the target dies while its children were attached by SetRelation only
			q = append(q, &Op{K: "removeEntity", E: tgt})
			g.queue = q[1:]
			return q[0]
		}
	} else {
		for i, k := 0, rapid.IntRange(1, 3).Draw(t, "cycleChildren"); i < k; i++ {
			children = append(children, next)
			mkChild(tgt)
		}
	}
	if rapid.Bool().Draw(t, "cycleFilter") {
		fi := len(m.Filters)
		q = append(q, &Op{K: "filterNew", FS: &FilterSpec{Inst: 0, With: append([]int{}, cl...), Rels: []RelSpec{{C: r, T: tgt, S: 2}}}})
		if rapid.Bool().Draw(t, "cycleFilterCached") {
			q = append(q, &Op{K: "filterReg", F: fi, Mode: 1})
		}
	}
	for _, c := range children {
		switch rapid.IntRange(0, 3).Draw(t, "cycleVacate") {
		case 0, 1:
			q = append(q, &Op{K: "removeEntity", E: c})
		case 2:
			q = append(q, &Op{K: "remove", E: c, P: PUnsafe, Rem: []int{r}})
		default:
			q = append(q, &Op{K: "setRel", E: c, P: PUnsafe, Rels: []RelSpec{{C: r, T: other, S: 2}}})
		}
	}
	for i, k := 0, rapid.IntRange(0, 2).Draw(t, "cycleShrinks"); i < k; i++ {
		q = append(q, &Op{K: "shrink", Mode: rapid.SampledFrom([]int{0, 0, 1}).Draw(t, "shrinkMode")})
	}
	for i, k := 0, rapid.IntRange(1, 2).Draw(t, "cycleRefill"); i < k; i++ {
		mkChild(tgt)
	}
	if rapid.IntRange(0, 3).Draw(t, "cycleRemoveTarget") != 0 {
		q = append(q, &Op{K: "removeEntity", E: tgt})
	}
	if other >= 0 && rapid.Bool().Draw(t, "cycleRemoveOther") {
		q = append(q, &Op{K: "removeEntity", E: other})
	}
	g.queue = q[1:]
	return q[0]
}

func (g *Gen) fixedRel(t *rapid.T) bool {
	p := g.P.FixedRelBias
	if p == 0 {
		p = 30
	}
	return rapid.IntRange(0, 99).Draw(t, "fixedRel") < p
}

// bulkShift is 1 if the case started with a bulk op (the observer prefix then starts one step later).
func (g *Gen) bulkShift() int {
	if len(g.It.M.Ents) > 60 {
		return 1
	}
	return 0
}

// chainRels decides whether a filter with two or more fixed targets gets them in chained Relations() calls.
func (g *Gen) chainRels(t *rapid.T, op *Op) *Op {
	if len(op.FS.Rels) >= 2 && op.FS.Inst >= 0 {
		op.FS.Chain = rapid.Bool().Draw(t, "chainedRelations")
	}
	if op.FS.Inst < 0 {
		op.FS.Order = rapid.IntRange(0, 3).Draw(t, "builderOrder")
	}
	if op.FS.Inst >= 0 {
		op.FS.Order = rapid.IntRange(0, 3).Draw(t, "builderOrder")
		switch rapid.IntRange(0, 19).Draw(t, "repeatedArguments") {
		case 0:
			// the same relation component with two fixed targets: legal, and (unless the targets are equal) matches nothing
			if len(op.FS.Rels) > 0 {
				r := op.FS.Rels[rapid.IntRange(0, len(op.FS.Rels)-1).Draw(t, "repeatedRel")]
				op.FS.Rels = append(op.FS.Rels, RelSpec{C: r.C, T: g.pickTarget(t), S: r.S})
			}
		case 1:
			// a component named twice in With (or one that is a type parameter as well): positions count every mention
			if l := op.FS.List(); len(l) > 0 {
				op.FS.With = append(op.FS.With, l[rapid.IntRange(0, len(l)-1).Draw(t, "repeatedWith")])
			}
		}
	}
	return op
}

// genIDPoolScenario drives the ID pools behind cached filters (grows in steps of 128) or observers (steps of 32) past
// their second growth while another filter/observer stays registered: B goes through X registration cycles, A is
// registered, B goes through enough further cycles that the pool grows twice. Every registration takes a fresh ID.
func (g *Gen) genIDPoolScenario(t *rapid.T, observers bool) *Op {
	m := g.m()
	var q []*Op
	if observers {
		if len(m.Obs) > 6 {
			return nil
		}
		a, b := len(m.Obs), len(m.Obs)+1
		q = append(q, g.genObs(t), g.genObs(t))
		for _, o := range q {
			if o == nil || o.K != "obsNew" {
				return nil
			}
			o.Mode = 0 // created unregistered
		}
		x := rapid.IntRange(30, 62).Draw(t, "cyclesBefore")
		q = append(q, &Op{K: "obsReg", Q: b, Mode: 1, N: x}, &Op{K: "obsReg", Q: a, Mode: 1}, &Op{K: "obsReg", Q: b, Mode: 0, N: rapid.SampledFrom([]int{40, 70, 100}).Draw(t, "cyclesAfter")})
		if rapid.Bool().Draw(t, "thenUnregisterA") {
			q = append(q, &Op{K: "obsReg", Q: a, Mode: 0}, &Op{K: "obsReg", Q: b, Mode: 1})
		}
	} else {
		if len(m.Filters) > 6 {
			return nil
		}
		a, b := len(m.Filters), len(m.Filters)+1
		fa, fb := g.genFilter(t), g.genFilter(t)
		if fa == nil || fb == nil || fa.FS.Inst < 0 || fb.FS.Inst < 0 {
			return nil
		}
		x := rapid.IntRange(126, 250).Draw(t, "cyclesBefore")
		q = append(q, fa, fb, &Op{K: "filterReg", F: b, Mode: 1, N: x}, &Op{K: "filterReg", F: a, Mode: 1}, &Op{K: "filterReg", F: b, Mode: 0, N: rapid.SampledFrom([]int{140, 300}).Draw(t, "cyclesAfter")})
	}
	g.queue = q[1:]
	return q[0]
}
