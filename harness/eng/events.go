package eng

import (
	"fmt"
	"runtime"

	"arkverif/comps"

	"github.com/mlange-42/ark/ecs"
)

// plainObs adapts the non-generic ecs.Observer.
type plainObs struct{ o *ecs.Observer }

func (a *plainObs) Name() string            { return "Observer" }
func (a *plainObs) Comps() []int            { return nil }
func (a *plainObs) For(c []ecs.Comp)        { a.o.For(c...) }
func (a *plainObs) With(c []ecs.Comp)       { a.o.With(c...) }
func (a *plainObs) Without(c []ecs.Comp)    { a.o.Without(c...) }
func (a *plainObs) Exclusive()              { a.o.Exclusive() }
func (a *plainObs) Register(w *ecs.World)   { a.o.Register(w) }
func (a *plainObs) Unregister(w *ecs.World) { a.o.Unregister(w) }
func (a *plainObs) Do(fn func(ecs.Entity, Ptrs)) {
	a.o.Do(func(e ecs.Entity) { fn(e, nil) })
}

func (it *Interp) opObsNew(op *Op) {
	os := *op.OS
	os.Registered = false
	it.M.Obs = append(it.M.Obs, &os)
	j := len(it.M.Obs) - 1
	it.run(op, true, func(b *Backend) { it.makeObs(b, j) })
	if op.Mode == 1 {
		// register right away
		it.M.Obs[j].Registered = true
		it.run(op, true, func(b *Backend) {
			if b.Pol.DropObsOdd && j%2 == 1 {
				return
			}
			b.obs[j].Register(b.W)
			b.obsOn[j] = true
		})
		it.checkObserverCount()
	}
}

func (it *Interp) makeObs(b *Backend, j int) {
	os := it.M.Obs[j]
	for len(b.obs) <= j {
		b.obs = append(b.obs, nil)
		b.obsOn = append(b.obsOn, false)
	}
	var o Obs
	forList := os.For
	if os.Inst < 0 || b.Pol.ForceUnsafe {
		o = &plainObs{o: ecs.Observe(b.evT[os.Ev])}
		forList = listOf(os.C())
	} else {
		o = ObsInsts[os.Inst].New(b.evT[os.Ev])
	}
	split := func(l []int, f func([]ecs.Comp)) {
		if len(l) == 0 {
			return
		}
		if os.Order == 3 {
			for _, c := range l {
				useComps([]int{c}, f)
			}
			return
		}
		useComps(l, f)
	}
	doFor := func() { split(forList, o.For) }
	doWith := func() { split(os.With, o.With) }
	doExcl := func() {
		split(os.Without, o.Without)
		if os.Exclusive {
			o.Exclusive()
		}
	}
	switch os.Order {
	case 1:
		doExcl()
		doWith()
		doFor()
	case 2:
		doWith()
		doFor()
		doExcl()
	default:
		doFor()
		doWith()
		doExcl()
	}
	flushScramble()
	typed := os.Inst >= 0 && !b.Pol.ForceUnsafe
	o.Do(func(e ecs.Entity, p Ptrs) { it.onEvent(b, j, e, p, typed) })
	b.obs[j] = o
	b.obsOn[j] = false
}

// opObsReg registers (Mode 1) or unregisters (Mode 0) observer Q.
func (it *Interp) opObsReg(op *Op) {
	o := it.M.Obs[op.Q]
	if o.Registered == (op.Mode == 1) {
		panic("bad op: observer registration state")
	}
	o.Registered = op.Mode == 1
	it.regAt[op.Q] = false // (un)registration itself emits nothing
	it.run(op, true, func(b *Backend) {
		if b.Pol.DropObsOdd && op.Q%2 == 1 {
			return
		}
		if b.obsOn[op.Q] == (op.Mode == 1) {
			return // this backend did not follow an in-callback unregistration (see DropObsOdd)
		}
		for k := 0; k < op.N; k++ {
			if op.Mode == 1 {
				b.obs[op.Q].Register(b.W)
				b.obs[op.Q].Unregister(b.W)
			} else {
				b.obs[op.Q].Unregister(b.W)
				b.obs[op.Q].Register(b.W)
			}
		}
		if op.Mode == 1 {
			b.obs[op.Q].Register(b.W)
		} else {
			b.obs[op.Q].Unregister(b.W)
		}
		b.obsOn[op.Q] = op.Mode == 1
	})
	if op.N > 0 {
		it.count("observer-registration-cycles")
		if op.N > 64 {
			it.count("observer-more-than-64-registration-cycles")
		}
	}
	it.checkObserverCount()
}

func (it *Interp) checkObserverCount() {
	for _, b := range it.B {
		if b.Pol.SkipStats {
			continue
		}
		n := 0
		for _, on := range b.obsOn {
			if on {
				n++
			}
		}
		if !b.Pol.DropObsOdd {
			n = 0
			for _, o := range it.M.Obs {
				if o.Registered {
					n++
				}
			}
		}
		if got := b.W.Stats().Observers; got != n {
			fail("stats|observers|count", "%s step %d: Stats.Observers=%d, model %d", b.Name, it.Step, got, n)
		}
	}
}

func (it *Interp) opEmit(op *Op) {
	ev := op.Mode // EvCustom0 or EvCustom1
	any := false
	for _, o := range it.M.Obs {
		if o.Registered && o.Ev == ev {
			any = true
		}
	}
	cm := maskOf(op.Comps)
	argsOK := true
	if op.E < 0 {
		argsOK = cm == 0
	} else {
		argsOK = it.alive(op.E) && cm&^it.M.Ents[op.E].Mask == 0
	}
	if argsOK && any {
		var m uint16
		if op.E >= 0 {
			m = it.M.Ents[op.E].Mask
			it.sel = map[int]bool{op.E: true}
		}
		it.evAt = it.M.Ents
		it.emit(Emission{Ev: ev, Ent: op.E, New: m, Chg: cm, Kind: 2})
	}
	// Documented fast path: without an observer of the type the call returns before looking at its arguments. Invalid
	// arguments are therefore rejected only by a world that has such an observer registered; that is decided per
	// backend, because a backend may run with fewer observers than the model (policy DropObsOdd) or with one more (it
	// did not follow an in-callback unregistration).
	for _, b := range it.B {
		has := false
		for j, o := range it.M.Obs {
			if o.Ev == ev && j < len(b.obsOn) && b.obsOn[j] {
				has = true
			}
		}
		p := try(func() { b.W.Event(b.evT[ev]).For(compsOf(op.Comps)...).Emit(b.handle(op.E)) })
		if !argsOK && has && p == nil {
			fail("reject|emit|no-panic", "%s step %d: invalid operation %v did not panic", b.Name, it.Step, op)
		}
		if (argsOK || !has) && p != nil {
			fail("panic|emit|valid-call", "%s step %d: valid operation %v panicked: %v", b.Name, it.Step, op, p)
		}
	}
	if !argsOK && any {
		it.count("rejected-emit")
		if op.Sub != "" {
			it.count("misuse-" + op.Sub)
		}
	}
}

// onEvent is the body of every observer callback.
func (it *Interp) onEvent(b *Backend, j int, e ecs.Entity, p Ptrs, typed bool) {
	if b.inReenter {
		return // events of the world change a callback makes itself (see below) are not part of the model
	}
	it.sameObjectAttempt(b)
	os := it.M.Obs[j]
	s := -1
	if !e.IsZero() {
		s = b.serial(e)
		if s < 0 {
			fail("events|"+it.cur.K+"|"+evNames[os.Ev]+"|unknown-entity", "%s step %d %v: observer %d %s called with unknown entity %v", b.Name, it.Step, it.cur, j, obsStr(os), e)
		}
	}
	b.rec = append(b.rec, Rec{j, s})
	if typed && s >= 0 && b.W.Alive(e) {
		for i, c := range ObsInsts[os.Inst].Comps {
			if p[i] == nil || !b.U.Has(e, b.IDs[c]) || p[i] != b.U.Get(e, b.IDs[c]) {
				fail("events|"+it.cur.K+"|"+evNames[os.Ev]+"|wrong-pointer", "%s step %d %v: typed observer %d pointer %d is not component %s of #%d", b.Name, it.Step, it.cur, j, i, comps.All[c].Name, s)
			}
		}
	}
	if it.Opt.Inspect && !b.Pol.ExpandBatches && !b.Pol.ForceUnsafe {
		// (a backend that replaces batches by single operations, or typed calls by ID-based ones followed by writes,
		// reaches the same final state but not the same state at callback time)
		it.inspect(b, j, s, e)
	}
	if os.Reenter && !removalEvent(os.Ev) && !b.W.IsLocked() && !e.IsZero() && b.W.Alive(e) {
		// Callbacks of single-entity operations on an unlocked world may change the world. This one creates an entity
		// with a relation to the reported entity through the ID-based API and removes it again: no net effect, but the
		// world's scratch space is used while the outer operation is still under way.
		b.inReenter = true
		r := comps.IR1 + it.Step%3
		id := b.ids([]int{r})
		perr := try(func() {
			if op := it.cur; op != nil && op.P == PMap && (op.K == "setRel" || op.K == "add" || op.K == "new") && op.M < len(MapInsts) && MapInsts[op.M].Mask&comps.RelMask != 0 && !b.Pol.ForceUnsafe {
				// through the very mapper the outer operation is using (its scratch space is in use right now)
				list := MapInsts[op.M].Comps
				var args []RelArg
				for pos, c := range list {
					if comps.All[c].Relation {
						args = append(args, RelArg{Pos: pos, Comp: c, Target: e, Style: 0})
					}
				}
				tmp := b.Mapper(op.M).NewEntity(make([]int64, len(list)), args)
				b.W.RemoveEntity(tmp)
				it.count("callback-used-the-mapper-of-the-running-operation")
				return
			}
			tmp := b.U.NewEntityRel(id, ecs.RelID(id[0], e))
			b.W.RemoveEntity(tmp)
		})
		b.inReenter = false
		if perr != nil {
			fail("events|"+it.cur.K+"|"+evNames[os.Ev]+"|reentrant-op-panicked", "%s step %d %v: creating and removing an entity from inside an unlocked %s callback panicked: %v", b.Name, it.Step, it.cur, evNames[os.Ev], perr)
		}
		it.count("callback-changed-the-world")
	}
	if os.UnregP1 > 0 && !b.Pol.DropObsOdd {
		k := os.UnregP1 - 1
		if k < len(b.obsOn) && b.obsOn[k] {
			b.obs[k].Unregister(b.W)
			b.obsOn[k] = false
			it.M.Obs[k].Registered = false
			it.free[k] = true
			it.count("unregister-inside-callback")
		}
	}
}

func removalEvent(ev int) bool {
	return ev == EvRemoveEntity || ev == EvRemoveComps || ev == EvRemoveRels
}

// inspect looks at the world from inside an observer callback (C09).
func (it *Interp) inspect(b *Backend, j int, s int, e ecs.Entity) {
	os := it.M.Obs[j]
	op := it.cur
	sigp := "inspect|" + op.K + "|" + evNames[os.Ev]
	where := fmt.Sprintf("step %d %v inside %s callback for #%d", it.Step, op, evNames[os.Ev], s)
	removal := removalEvent(os.Ev)
	wantLocked := it.M.OpenQ > 0 || removal || it.batch
	if got := b.W.IsLocked(); got != wantLocked {
		fail(sigp+"|lock-state", "%s %s: IsLocked=%v, expected %v", b.Name, where, got, wantLocked)
	}
	state := it.evAt
	if removal {
		state = it.pre
	}
	if state == nil {
		return
	}
	if s >= 0 {
		if s >= len(state) || !state[s].Alive {
			fail(sigp+"|not-affected", "%s %s: reported entity is not alive in the expected state", b.Name, where)
		}
		if !it.sel[s] {
			fail(sigp+"|not-affected", "%s %s: reported entity is not affected by the operation", b.Name, where)
		}
		b.compareEntity(sigp+"|entity", s, &state[s], where)
	}
	if it.batch {
		for _, t := range sortedInts(it.sel) {
			if t == s || t >= len(state) || !state[t].Alive {
				continue
			}
			if t >= len(b.H) || b.H[t].IsZero() {
				continue // handle of a batch-created entity not seen yet
			}
			// a listed known finding for exactly this clause is counted and skipped, the case goes on
			if v := catchViolation(func() { b.compareEntity(sigp+"|batch-timing", t, &state[t], where) }); v != nil {
				if it.Opt.Known != nil && it.Opt.Known(v.Sig) {
					it.ExcludedSigs[v.Sig]++
					break
				}
				panic(v)
			}
		}
	}
	// every entity alive in the expected state appears exactly once in a query
	if it.M.OpenQ < 60 {
		q := b.all.Query()
		seen := map[ecs.Entity]int{}
		for q.Next() {
			seen[q.Entity()]++
		}
		for h, n := range seen {
			if n != 1 {
				fail(sigp+"|query-dup", "%s %s: entity %v (#%d) appears %d times in a query", b.Name, where, h, b.Ser[h], n)
			}
		}
		if s >= 0 && seen[e] != 1 {
			fail(sigp+"|query-missing", "%s %s: reported entity appears %d times in a query", b.Name, where, seen[e])
		}
		want := 0
		for t := range state {
			if state[t].Alive {
				want++
			}
		}
		if len(seen) != want {
			fail(sigp+"|query-count", "%s %s: query yields %d entities, expected %d", b.Name, where, len(seen), want)
		}
	}
	it.count("inspected-callbacks")
	if removal || it.batch {
		lay := map[string]bool{}
		for t := range state {
			if state[t].Alive {
				lay[layoutKey(&state[t])] = true
			}
		}
		if len(lay) >= 2 {
			it.count("inspected-removal-or-batch")
		}
	}
}

// ---------------------------------------------------------------------------------------------
// open queries (lock discipline)

type mOpenQuery struct {
	filter    int
	remaining int // entities not yet visited
	total     int
	done      bool
}

func (it *Interp) opOpenQuery(op *Op) {
	switch op.K {
	case "qOpen":
		for _, r := range op.QRels {
			if !it.M.targetOK(r.T) {
				panic("bad op: query with dead per-query target")
			}
		}
		valid := it.M.OpenQ < 64
		f := it.M.Filters[op.F]
		sel := it.M.Select(f, op.QRels)
		if valid {
			if it.M.Open == nil {
				it.M.Open = map[int]*mOpenQuery{}
			}
			it.M.Open[op.Q] = &mOpenQuery{filter: op.F, remaining: len(sel), total: len(sel)}
			it.M.OpenQ++
			f.Queried = true
			if it.M.OpenQ >= 2 {
				it.count("two-queries-open")
			}
			if it.M.OpenQ == 64 {
				it.count("64-queries-open")
			}
		}
		if !valid && op.N > 0 {
			// the attempt is repeated op.N more times by a caller that keeps retrying; every one is rejected
			for _, b := range it.B {
				for k := 0; k < op.N; k++ {
					if p := try(func() { b.openQueryOn(it.M, op.F, op.QRels) }); p == nil {
						fail("reject|qOpen|no-panic", "%s step %d: attempt %d to open a 65th query did not panic", b.Name, it.Step, k+1)
					}
				}
			}
			it.count("many-rejected-65th-queries")
		}
		it.run(op, valid, func(b *Backend) {
			q := b.openQueryOn(it.M, op.F, op.QRels)
			exp := map[int]bool{}
			for _, s := range sel {
				exp[s] = true
			}
			b.openQ[op.Q] = &openQuery{q: q, expected: exp, filter: op.F}
			if c := q.Count(); c != len(sel) {
				fail("query|open|count", "%s step %d: open query %d Count=%d, model %d", b.Name, it.Step, op.Q, c, len(sel))
			}
		})
	case "qNext":
		mq := it.M.Open[op.Q]
		if mq == nil {
			panic("bad op: qNext on unknown query")
		}
		if mq.done {
			// Next on a query that is exhausted or closed: the model does not say whether this panics or returns false
			// (builds are compared in C20), but it must not yield anything and must not touch the world's lock state -
			// the lock bit of the finished query may already belong to another open query. A later Close of the same
			// query is still "closing a finished query again" (harmless).
			for _, b := range it.B {
				oq := b.openQ[op.Q]
				if oq == nil {
					continue
				}
				for i := 0; i < op.N; i++ {
					var ok bool
					p := try(func() { ok = oq.q.Next() })
					b.tr("next-on-finished panic=%v", p != nil)
					if p == nil && ok {
						fail("query|finished|next-true", "%s step %d: Next() on the finished query %d returned true", b.Name, it.Step, op.Q)
					}
				}
			}
			it.count("next-on-finished-query")
			if it.M.OpenQ > 0 {
				it.count("next-on-finished-query-while-others-open")
			}
			return
		}
		calls := op.N
		exhaust := false
		if calls > mq.remaining {
			calls = mq.remaining + 1
			exhaust = true
		}
		it.run(op, true, func(b *Backend) {
			oq := b.openQ[op.Q]
			// the world has been locked since the query was opened: Count and EntityAt of the open query still describe
			// the entities it matched then, whatever happened to the registration of its filter in between
			if c := oq.q.Count(); c != mq.total {
				fail("query|open|count-later", "%s step %d: open query %d of filter %d: Count=%d after %d entities were visited, %d matched when it was opened", b.Name, it.Step, op.Q, oq.filter, c, len(oq.visited), mq.total)
			}
			if mq.total > 0 {
				for _, i := range []int{0, mq.total - 1, (it.Step * 7) % mq.total} {
					h := oq.q.EntityAt(i)
					if s, known := b.Ser[h]; !known || !oq.expected[s] {
						fail("query|open|entityAt-later", "%s step %d: open query %d of filter %d: EntityAt(%d)=%v, which did not match when the query was opened", b.Name, it.Step, op.Q, oq.filter, i, h)
					}
				}
			}
			for i := 0; i < calls; i++ {
				ok := oq.q.Next()
				last := exhaust && i == calls-1
				if ok == last {
					fail("query|open|next", "%s step %d: open query %d Next()=%v after %d of %d entities", b.Name, it.Step, op.Q, ok, len(oq.visited), mq.total)
				}
				if !ok {
					break
				}
				h := oq.q.Entity()
				s, known := b.Ser[h]
				if !known || !oq.expected[s] {
					fail("query|open|extra", "%s step %d: open query %d of filter %d yields %v (#%d) which did not match at creation (expected %v)", b.Name, it.Step, op.Q, oq.filter, h, s, keys(oq.expected))
				}
				for _, v := range oq.visited {
					if v == s {
						fail("query|open|dup", "%s step %d: open query %d yields #%d twice", b.Name, it.Step, op.Q, s)
					}
				}
				oq.visited = append(oq.visited, s)
			}
			if exhaust {
				oq.done = true
				if len(oq.visited) != len(oq.expected) {
					fail("query|open|missing", "%s step %d: open query %d of filter %d visited %v, expected %v", b.Name, it.Step, op.Q, oq.filter, oq.visited, keys(oq.expected))
				}
			}
		})
		mq.remaining -= calls
		if exhaust {
			mq.remaining = 0
			mq.done = true
			it.M.OpenQ--
			it.count("query-exhausted-while-others-open")
		}
	case "qClose":
		mq := it.M.Open[op.Q]
		if mq == nil {
			panic("bad op: qClose of unknown query")
		}
		if mq.done {
			it.count("double-close")
		} else {
			mq.done = true
			it.M.OpenQ--
			// non-LIFO: some query opened later is still open
			for id, o := range it.M.Open {
				if id > op.Q && !o.done {
					it.count("non-lifo-close")
					break
				}
			}
		}
		it.run(op, true, func(b *Backend) {
			if oq := b.openQ[op.Q]; oq != nil {
				oq.q.Close()
				oq.done = true
			}
		})
	}
}

// ---------------------------------------------------------------------------------------------
// statistics

func (it *Interp) opStats(op *Op) {
	it.count("stats-calls")
	if it.Cnt["stats-calls"] >= 2 && it.Cnt["table-emptied-since-stats"] > 0 {
		it.count("stats-after-table-emptied")
	}
	it.Cnt["table-emptied-since-stats"] = 0
	for _, b := range it.B {
		if b.Pol.SkipStats {
			continue
		}
		it.checkStats(b, "stats")
	}
}

// checkStats verifies the internal consistency of World.Stats and its agreement with the model.
func (it *Interp) checkStats(b *Backend, sigp string) {
	st := b.W.Stats()
	where := fmt.Sprintf("%s step %d", b.Name, it.Step)
	alive := it.M.NumAlive()
	en := st.Entities
	if en.Used != alive {
		fail(sigp+"|entities|used", "%s: Entities.Used=%d, model %d", where, en.Used, alive)
	}
	if en.Total != en.Used+en.Recycled || en.Total > en.Capacity {
		fail(sigp+"|entities|total", "%s: Entities %+v violates Total=Used+Recycled<=Capacity", where, en)
	}
	sumA, memUsed, memArch := 0, 0, 0
	seen := map[string]bool{}
	perSet := map[uint16]int{}
	for _, e := range it.M.Ents {
		if e.Alive {
			perSet[e.Mask]++
		}
	}
	for ai := range st.Archetypes {
		a := &st.Archetypes[ai]
		var mask uint16
		per := 8
		for _, id := range a.ComponentIDs {
			found := false
			for c := 0; c < comps.N; c++ {
				if b.Reg[c] && b.IDs[c].Index() == id {
					mask |= 1 << uint(c)
					per += int(comps.All[c].Size)
					found = true
				}
			}
			if !found {
				fail(sigp+"|archetype|unknown-component", "%s: archetype %d lists unknown component %d", where, ai, id)
			}
		}
		if len(a.ComponentTypes) != len(a.ComponentIDs) || len(a.ComponentTypeNames) != len(a.ComponentIDs) {
			fail(sigp+"|archetype|component-types", "%s: archetype %d lists %d IDs, %d types, %d type names", where, ai, len(a.ComponentIDs), len(a.ComponentTypes), len(a.ComponentTypeNames))
		}
		for j, id := range a.ComponentIDs {
			for c := 0; c < comps.N; c++ {
				if b.Reg[c] && b.IDs[c].Index() == id && (a.ComponentTypes[j] != comps.All[c].Type || a.ComponentTypeNames[j] != comps.All[c].Type.Name()) {
					fail(sigp+"|archetype|component-types", "%s: archetype %d component %d is reported as type %v / %q, registered as %v", where, ai, id, a.ComponentTypes[j], a.ComponentTypeNames[j], comps.All[c].Type)
				}
			}
		}
		key := fmt.Sprint(mask)
		if seen[key] {
			fail(sigp+"|archetype|duplicate", "%s: two archetypes with component set %s", where, names(mask))
		}
		seen[key] = true
		if a.MemoryPerEntity != per {
			fail(sigp+"|archetype|mem-per-entity", "%s: archetype %s MemoryPerEntity=%d, expected %d", where, names(mask), a.MemoryPerEntity, per)
		}
		nrel := 0
		for _, c := range listOf(mask & comps.RelMask) {
			_ = c
			nrel++
		}
		if a.NumRelations != nrel {
			fail(sigp+"|archetype|num-relations", "%s: archetype %s NumRelations=%d", where, names(mask), a.NumRelations)
		}
		size, capa, mem, used := 0, 0, 0, 0
		for ti := range a.Tables {
			t := &a.Tables[ti]
			if t.Size > t.Capacity || t.Size < 0 {
				fail(sigp+"|table|size-cap", "%s: archetype %s table %d size %d > capacity %d", where, names(mask), ti, t.Size, t.Capacity)
			}
			if t.Memory != t.Capacity*per || t.MemoryUsed != t.Size*per {
				fail(sigp+"|table|memory", "%s: archetype %s table %d memory %d/%d for size %d cap %d per-entity %d", where, names(mask), ti, t.MemoryUsed, t.Memory, t.Size, t.Capacity, per)
			}
			size += t.Size
			capa += t.Capacity
			mem += t.Memory
			used += t.MemoryUsed
		}
		if a.Size != size {
			fail(sigp+"|archetype|size", "%s: archetype %s Size=%d, sum of tables %d", where, names(mask), a.Size, size)
		}
		if a.Size != perSet[mask] {
			fail(sigp+"|archetype|size-model", "%s: archetype %s Size=%d, model %d", where, names(mask), a.Size, perSet[mask])
		}
		delete(perSet, mask)
		if a.Capacity < capa || (a.FreeTables == 0 && a.Capacity != capa) {
			fail(sigp+"|archetype|capacity", "%s: archetype %s Capacity=%d, sum of tables %d, %d free tables", where, names(mask), a.Capacity, capa, a.FreeTables)
		}
		if a.Memory != a.Capacity*per || a.MemoryUsed != a.Size*per || a.MemoryUsed != used {
			fail(sigp+"|archetype|memory", "%s: archetype %s Memory=%d MemoryUsed=%d for capacity %d size %d per-entity %d", where, names(mask), a.Memory, a.MemoryUsed, a.Capacity, a.Size, per)
		}
		if nrel == 0 && (len(a.Tables) != 1 || a.FreeTables != 0) {
			fail(sigp+"|archetype|tables", "%s: archetype %s without relations has %d tables, %d free", where, names(mask), len(a.Tables), a.FreeTables)
		}
		sumA += a.Size
		memUsed += a.MemoryUsed
		memArch += a.Memory
	}
	for mask, n := range perSet {
		if n > 0 {
			fail(sigp+"|archetype|missing", "%s: no archetype for component set %s holding %d entities", where, names(mask), n)
		}
	}
	if sumA != en.Used {
		fail(sigp+"|entities|sum", "%s: sum of archetype sizes %d, Entities.Used %d", where, sumA, en.Used)
	}
	if st.MemoryUsed != memUsed+en.Used*16 {
		fail(sigp+"|world|memory-used", "%s: MemoryUsed=%d, expected %d", where, st.MemoryUsed, memUsed+en.Used*16)
	}
	if st.Memory < memArch+en.Capacity*8 || (st.Memory-memArch-en.Capacity*8)%8 != 0 {
		fail(sigp+"|world|memory", "%s: Memory=%d, archetypes %d, entity capacity %d", where, st.Memory, memArch, en.Capacity)
	}
	if st.Locked != (it.M.OpenQ > 0) || st.Locked != b.W.IsLocked() {
		fail(sigp+"|world|locked", "%s: Stats.Locked=%v, model open queries %d", where, st.Locked, it.M.OpenQ)
	}
	nf, no := 0, 0
	for _, f := range it.M.Filters {
		if f.Registered {
			nf++
		}
	}
	for _, o := range it.M.Obs {
		if o.Registered {
			no++
		}
	}
	if !b.Pol.UncachedOnly && st.CachedFilters != nf {
		fail(sigp+"|world|cached-filters", "%s: CachedFilters=%d, model %d", where, st.CachedFilters, nf)
	}
	if b.Pol.DropObsOdd {
		no = 0
		for _, on := range b.obsOn {
			if on {
				no++
			}
		}
	}
	if st.Observers != no {
		fail(sigp+"|world|observers", "%s: Observers=%d, model %d", where, st.Observers, no)
	}
	if len(st.ComponentTypes) != b.numTypes(it.M) || len(st.ComponentTypeNames) != len(st.ComponentTypes) {
		fail(sigp+"|world|component-types", "%s: %d component types reported, %d registered", where, len(st.ComponentTypes), b.numTypes(it.M))
	}
	for c := 0; c < comps.N; c++ {
		if !b.Reg[c] {
			continue
		}
		id := int(b.IDs[c].Index())
		if id < len(st.ComponentTypes) && (st.ComponentTypes[id] != comps.All[c].Type || st.ComponentTypeNames[id] != comps.All[c].Type.Name()) {
			fail(sigp+"|world|component-types", "%s: component ID %d is reported as type %v, registered as %v", where, id, st.ComponentTypes[id], comps.All[c].Type)
		}
	}
	if b.Trace != nil {
		b.tr("stats %+v mem=%d/%d arch=%d", en, st.MemoryUsed, st.Memory, len(st.Archetypes))
		for ai := range st.Archetypes {
			a := &st.Archetypes[ai]
			b.tr(" arch %v size=%d cap=%d free=%d tables=%v", a.ComponentIDs, a.Size, a.Capacity, a.FreeTables, a.Tables)
		}
	}
}

// ---------------------------------------------------------------------------------------------
// resources

// ResA..ResD are resource types.
type ResA struct{ V int64 }
type ResB struct{ V int64 }
type ResC struct{ V int64 }
type ResD struct{ V int64 }

func resID(b *Backend, i int) ecs.ResID {
	switch i {
	case 0:
		return ecs.ResourceID[ResA](b.W)
	case 1:
		return ecs.ResourceID[ResB](b.W)
	case 2:
		return ecs.ResourceID[ResC](b.W)
	}
	return ecs.ResourceID[ResD](b.W)
}

// resKit gives uniform access to one typed resource through all three routes: the typed handle Resource[T] that the
// backend keeps for its whole life, the generic functions, and the ID-based Resources API.
type resKit struct {
	add    func(b *Backend, v int64, route int)
	remove func(b *Backend, route int)
	get    func(b *Backend) (handleHas bool, viaHandle, viaGeneric, viaID int64) // -1 = absent
}

func mkResKit[T any](idx int, field func(b *Backend) *ecs.Resource[T], mk func(int64) *T, val func(*T) int64) resKit {
	handle := func(b *Backend) *ecs.Resource[T] {
		if !b.resInit[idx] {
			*field(b) = ecs.NewResource[T](b.W)
			b.resInit[idx] = true
		}
		return field(b)
	}
	return resKit{
		add: func(b *Backend, v int64, route int) {
			h := handle(b)
			switch route % 3 {
			case 0:
				ecs.AddResource(b.W, mk(v))
			case 1:
				h.Add(mk(v))
			default:
				b.W.Resources().Add(ecs.ResourceID[T](b.W), mk(v))
			}
		},
		remove: func(b *Backend, route int) {
			h := handle(b)
			if route%2 == 0 {
				b.W.Resources().Remove(ecs.ResourceID[T](b.W))
			} else {
				h.Remove()
			}
		},
		get: func(b *Backend) (bool, int64, int64, int64) {
			h := handle(b)
			vh, vg, vi := int64(-1), int64(-1), int64(-1)
			// the kept handle is asked only every other time while the resource is absent (a handle that is not asked in
			// between must still see the resource that is added next)
			if h.Has() || b.resAsk[idx]%2 == 0 {
				if p := h.Get(); p != nil {
					vh = val(p)
				}
			}
			b.resAsk[idx]++
			if p := ecs.GetResource[T](b.W); p != nil {
				vg = val(p)
			}
			if r := b.W.Resources().Get(ecs.ResourceID[T](b.W)); r != nil {
				vi = val(r.(*T))
			}
			return h.Has(), vh, vg, vi
		},
	}
}

var resKits = []resKit{
	mkResKit(0, func(b *Backend) *ecs.Resource[ResA] { return &b.resA }, func(v int64) *ResA { return &ResA{V: v} }, func(p *ResA) int64 { return p.V }),
	mkResKit(1, func(b *Backend) *ecs.Resource[ResB] { return &b.resB }, func(v int64) *ResB { return &ResB{V: v} }, func(p *ResB) int64 { return p.V }),
	mkResKit(2, func(b *Backend) *ecs.Resource[ResC] { return &b.resC }, func(v int64) *ResC { return &ResC{V: v} }, func(p *ResC) int64 { return p.V }),
	mkResKit(3, func(b *Backend) *ecs.Resource[ResD] { return &b.resD }, func(v int64) *ResD { return &ResD{V: v} }, func(p *ResD) int64 { return p.V }),
}

// opResource: Mode 0 add, 1 remove; E = resource index. Adds and removals go through a route that changes from step to
// step; afterwards all four resources are read through all routes, the kept handles included.
func (it *Interp) opResource(op *Op) {
	i := op.E
	_, has := it.M.Resources[i]
	valid := has == (op.Mode == 1)
	v := int64(it.Step)
	if valid {
		if op.Mode == 0 {
			it.M.Resources[i] = v
		} else {
			delete(it.M.Resources, i)
		}
	}
	it.run(op, valid, func(b *Backend) {
		if op.Mode == 1 {
			resKits[i].remove(b, it.Step)
			return
		}
		resKits[i].add(b, v, it.Step)
	})
	it.checkResources()
}

func (it *Interp) checkResources() {
	for _, b := range it.B {
		for k := 0; k < 4; k++ {
			want, has := it.M.Resources[k]
			if !has {
				want = -1
			}
			if b.W.Resources().Has(resID(b, k)) != has {
				fail("resources|has", "%s step %d: resource %d Has=%v, model %v", b.Name, it.Step, k, !has, has)
			}
			hHas, vh, vg, vi := resKits[k].get(b)
			if hHas != has {
				fail("resources|has", "%s step %d: the kept Resource[T] handle of resource %d reports Has=%v, model %v", b.Name, it.Step, k, hHas, has)
			}
			if vh != want || vg != want || vi != want {
				fail("resources|get", "%s step %d: resource %d holds %d (kept handle) / %d (GetResource) / %d (Resources.Get), model %d (-1 = absent)", b.Name, it.Step, k, vh, vg, vi, want)
			}
		}
	}
}

var _ = runtime.GC

// catchViolation runs f and returns the violation it raised, if any.
func catchViolation(f func()) (v *Violation) {
	defer func() {
		if r := recover(); r != nil {
			if vv, ok := r.(*Violation); ok {
				v = vv
				return
			}
			panic(r)
		}
	}()
	f()
	return nil
}
