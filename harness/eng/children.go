package eng

import (
	"bufio"
	"encoding/json"
	"fmt"
	"io"
	"os/exec"
)

// Child is a long-lived arkrun process.
type Child struct {
	Name string
	cmd  *exec.Cmd
	in   io.WriteCloser
	out  *bufio.Reader
}

// ChildReply is what arkrun answers per case.
type ChildReply struct {
	Trace     string `json:"trace"`
	Violation string `json:"violation,omitempty"`
	Crash     string `json:"crash,omitempty"`
}

// StartChild starts an arkrun binary.
func StartChild(name, path string, env []string) (*Child, error) {
	cmd := exec.Command(path)
	cmd.Env = env
	in, err := cmd.StdinPipe()
	if err != nil {
		return nil, err
	}
	outp, err := cmd.StdoutPipe()
	if err != nil {
		return nil, err
	}
	if err := cmd.Start(); err != nil {
		return nil, err
	}
	return &Child{Name: name, cmd: cmd, in: in, out: bufio.NewReaderSize(outp, 1<<20)}, nil
}

// Run sends a case and waits for the reply.
func (c *Child) Run(cs *Case) (*ChildReply, error) {
	b, err := json.Marshal(cs)
	if err != nil {
		return nil, err
	}
	b = append(b, '\n')
	if _, err := c.in.Write(b); err != nil {
		return nil, fmt.Errorf("child %s: write: %w", c.Name, err)
	}
	line, err := c.out.ReadBytes('\n')
	if err != nil {
		return nil, fmt.Errorf("child %s: read: %w", c.Name, err)
	}
	r := &ChildReply{}
	if err := json.Unmarshal(line, r); err != nil {
		return nil, fmt.Errorf("child %s: bad reply: %w", c.Name, err)
	}
	return r, nil
}

// Stop terminates the child.
func (c *Child) Stop() {
	c.in.Close()
	_ = c.cmd.Wait()
}

// firstDiff returns a short description of the first differing line of two traces.
func firstDiff(a, b string) string {
	la, lb := splitLines(a), splitLines(b)
	for i := 0; i < len(la) || i < len(lb); i++ {
		var x, y string
		if i < len(la) {
			x = la[i]
		}
		if i < len(lb) {
			y = lb[i]
		}
		if x != y {
			if len(x) > 400 {
				x = x[:400] + "..."
			}
			if len(y) > 400 {
				y = y[:400] + "..."
			}
			return fmt.Sprintf("trace line %d:\n  %s\n  %s", i+1, x, y)
		}
	}
	return "no difference"
}

func splitLines(s string) []string {
	var out []string
	start := 0
	for i := 0; i < len(s); i++ {
		if s[i] == '\n' {
			out = append(out, s[start:i])
			start = i + 1
		}
	}
	if start < len(s) {
		out = append(out, s[start:])
	}
	return out
}
