//go:build verif

package eng

import (
	"testing"

	"pgregory.net/rapid"
)

func TestC11(t *testing.T) {
	st := NewRunStats("C11")
	defer st.Write()
	rapid.Check(t, func(rt *rapid.T) { RunCase(rt, Props["C11"], st, KnownSigs()) })
	if !t.Failed() {
		runTrivial(t, st)
	}
	if !t.Failed() {
		runCollect(t, st)
	}
}
