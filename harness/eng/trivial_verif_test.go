//go:build verif

package eng

import (
	"fmt"
	"reflect"
	"testing"
	"unsafe"

	"github.com/mlange-42/ark/ecs"
	"pgregory.net/rapid"
)

// ptrBytes reads abi.Type.PtrBytes (the length of the prefix of the type that can contain pointers) from the
// runtime type descriptor behind a reflect.Type: struct { Size_ uintptr; PtrBytes uintptr; ... }.
func ptrBytes(tp reflect.Type) uintptr {
	type iface struct{ typ, data unsafe.Pointer }
	desc := (*iface)(unsafe.Pointer(&tp)).data
	return *(*uintptr)(unsafe.Add(desc, unsafe.Sizeof(uintptr(0))))
}

var scalarTypes = []reflect.Type{
	reflect.TypeFor[bool](), reflect.TypeFor[int8](), reflect.TypeFor[uint16](), reflect.TypeFor[int32](), reflect.TypeFor[int64](), reflect.TypeFor[uint](),
	reflect.TypeFor[uintptr](), reflect.TypeFor[float32](), reflect.TypeFor[float64](), reflect.TypeFor[complex128](), reflect.TypeFor[[0]int](), reflect.TypeFor[struct{}](),
}

var pointerTypes = []reflect.Type{
	reflect.TypeFor[*int](), reflect.TypeFor[[]byte](), reflect.TypeFor[map[int]int](), reflect.TypeFor[string](), reflect.TypeFor[chan int](),
	reflect.TypeFor[any](), reflect.TypeFor[error](), reflect.TypeFor[func()](), reflect.TypeFor[func(int) string](), reflect.TypeFor[unsafe.Pointer](),
	reflect.TypeFor[*struct{}](), reflect.TypeFor[ecs.Entity](),
}

func genType(t *rapid.T, depth int) reflect.Type {
	k := rapid.IntRange(0, 9).Draw(t, "typeKind")
	if depth == 0 && k > 5 {
		k = k % 6
	}
	switch {
	case k <= 2:
		return rapid.SampledFrom(scalarTypes).Draw(t, "scalar")
	case k <= 5:
		return rapid.SampledFrom(pointerTypes).Draw(t, "pointerish")
	case k <= 7:
		n := rapid.IntRange(0, 4).Draw(t, "fields")
		fs := make([]reflect.StructField, n)
		for i := range fs {
			fs[i] = reflect.StructField{Name: fmt.Sprintf("F%d", i), Type: genType(t, depth-1)}
		}
		return reflect.StructOf(fs)
	default:
		return reflect.ArrayOf(rapid.IntRange(0, 3).Draw(t, "len"), genType(t, depth-1))
	}
}

// checkTrivial: a type classified as trivial (moved by raw memory copies, without write barriers) must be
// pointer-free according to the runtime's own pointer map. One direction only: treating a pointer-free type as
// non-trivial (reflection copies) is always legal.
func checkTrivial(tp reflect.Type) error {
	if ecs.VerifIsTrivial(tp) && ptrBytes(tp) != 0 {
		return fmt.Errorf("type %v is classified pointer-free but the runtime pointer map covers %d bytes of it", tp, ptrBytes(tp))
	}
	return nil
}

func runTrivial(t *testing.T, st *RunStats) {
	// sanity of the oracle itself on types with a known answer
	for _, tp := range scalarTypes {
		if ptrBytes(tp) != 0 {
			t.Fatalf("oracle broken: %v has PtrBytes %d", tp, ptrBytes(tp))
		}
	}
	for _, tp := range pointerTypes[:len(pointerTypes)-1] {
		if ptrBytes(tp) == 0 {
			t.Fatalf("oracle broken: %v has PtrBytes 0", tp)
		}
	}
	n, withPtr, nested := 0, 0, 0
	rapid.Check(t, func(rt *rapid.T) {
		tp := genType(rt, 3)
		if err := checkTrivial(tp); err != nil {
			rt.Fatalf("VIOLATION-CASE property=C11 sig=memory|trivial|misclassified\n%v", err)
		}
		n++
		if ptrBytes(tp) != 0 {
			withPtr++
			if tp.Kind() == reflect.Struct || tp.Kind() == reflect.Array {
				nested++
				st.AddNonTrivial([]byte("type " + tp.String()))
				if nested%50 == 1 && len(st.Samples) < 5 {
					st.Samples = append(st.Samples, map[string]any{"kind": "generated type", "type": tp.String(), "classified_pointer_free": ecs.VerifIsTrivial(tp), "runtime_ptr_bytes": ptrBytes(tp)})
				}
			}
		}
	})
	st.Classes["generated-types"] += n
	st.Classes["generated-types-with-pointers"] += withPtr
	st.Classes["generated-composite-types-with-pointers"] += nested
}
