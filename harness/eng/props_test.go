package eng

import (
	"os"
	"testing"
	"time"

	"pgregory.net/rapid"
)

func runProp(t *testing.T, id string) {
	pd := Props[id]
	if pd == nil {
		t.Fatalf("no property %s", id)
	}
	st := NewRunStats(id)
	known := KnownSigs()
	defer st.Write()
	rapid.Check(t, func(rt *rapid.T) { RunCase(rt, pd, st, known) })
}

func TestC01(t *testing.T) { runProp(t, "C01") }
func TestC02(t *testing.T) { runProp(t, "C02") }
func TestC03(t *testing.T) { runProp(t, "C03") }
func TestC04(t *testing.T) { runProp(t, "C04") }
func TestC05(t *testing.T) { runProp(t, "C05") }
func TestC06(t *testing.T) { runProp(t, "C06") }
func TestC07(t *testing.T) { runProp(t, "C07") }
func TestC08(t *testing.T) { runProp(t, "C08") }
func TestC09(t *testing.T) { runProp(t, "C09") }
func TestC10(t *testing.T) { runProp(t, "C10") }
func TestC14(t *testing.T) { runProp(t, "C14") }
func TestC15(t *testing.T) { runProp(t, "C15") }
func TestC16(t *testing.T) { runProp(t, "C16") }
func TestC17(t *testing.T) {
	st := NewRunStats("C17")
	defer st.Write()
	rapid.Check(t, func(rt *rapid.T) { RunCase(rt, Props["C17"], st, KnownSigs()) })
	if !t.Failed() {
		runCodecs(t, st)
	}
}
func TestC19(t *testing.T) { runProp(t, "C19") }

// TestReplay re-executes the case in VERIF_REPLAY without rapid.
func TestReplay(t *testing.T) {
	path := os.Getenv("VERIF_REPLAY")
	if path == "" {
		t.Skip("VERIF_REPLAY not set")
	}
	cs, err := ReadCase(path)
	if err != nil {
		t.Fatal(err)
	}
	pd := Props[cs.Property]
	if pd == nil {
		t.Fatalf("unknown property %q", cs.Property)
	}
	if v := Replay(pd, cs); v != nil {
		t.Fatalf("REPLAY-VIOLATION property=%s sig=%s\n%s", cs.Property, v.Sig, v.Msg)
	}
}

// TestMinimize shrinks the case in VERIF_REPLAY at the op-list level and rewrites the file.
func TestMinimize(t *testing.T) {
	path := os.Getenv("VERIF_REPLAY")
	if path == "" {
		t.Skip("VERIF_REPLAY not set")
	}
	cs, err := ReadCase(path)
	if err != nil {
		t.Fatal(err)
	}
	pd := Props[cs.Property]
	before := len(cs.Ops)
	min := Minimize(pd, cs, 60*time.Second)
	if err := WriteCase(path, min); err != nil {
		t.Fatal(err)
	}
	t.Logf("minimized %d -> %d ops", before, len(min.Ops))
}
