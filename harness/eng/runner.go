package eng

import (
	"encoding/json"
	"fmt"
	"hash/fnv"
	"os"
	"runtime"
	"sort"
	"strconv"
	"strings"
	"time"

	"pgregory.net/rapid"
)

// PropDef defines one property check on the engine.
type PropDef struct {
	ID         string
	Profile    *Profile
	Policies   []Policy
	Opt        Options
	Rule       string
	NonTrivial func(it *Interp, ops []Op) bool
	// Extra runs after the last op of a case.
	Extra func(it *Interp, ops []Op)
	// Trace makes every backend record the trace of observable results.
	Trace bool
}

// RunStats accumulates the evidence of one test process.
type RunStats struct {
	Property    string         `json:"property"`
	Evaluations int            `json:"evaluations"`
	NonTrivial  []string       `json:"nontrivial_hashes"`
	Classes     map[string]int `json:"classes"`
	Ops         int            `json:"ops"`
	Excluded    map[string]int `json:"excluded_known"`
	Samples     []any          `json:"samples"`
	Failed      bool           `json:"failed"`
	FailSig     string         `json:"fail_sig,omitempty"`
	FailMsg     string         `json:"fail_msg,omitempty"`
	FailFile    string         `json:"fail_file,omitempty"`
	WallS       float64        `json:"wall_s"`
	Requested   int            `json:"requested"`
	Rule        string         `json:"rule"`
	API         map[string]int `json:"api_calls,omitempty"`
	APIKeys     []string       `json:"api_keys,omitempty"`
	nt          map[string]bool
	start       time.Time
}

// NewRunStats creates the accumulator.
func NewRunStats(prop string) *RunStats {
	return &RunStats{Property: prop, Classes: map[string]int{}, Excluded: map[string]int{}, nt: map[string]bool{}, start: time.Now()}
}

// AddNonTrivial records a distinct non-trivial case by hash.
func (s *RunStats) AddNonTrivial(key []byte) {
	h := fnv.New64a()
	h.Write(key)
	s.nt[fmt.Sprintf("%016x", h.Sum64())] = true
}

// Write dumps the stats to the file named by VERIF_OUT (if set).
func (s *RunStats) Write() {
	path := os.Getenv("VERIF_OUT")
	if path == "" {
		return
	}
	s.NonTrivial = s.NonTrivial[:0]
	for k := range s.nt {
		s.NonTrivial = append(s.NonTrivial, k)
	}
	sort.Strings(s.NonTrivial)
	s.WallS = time.Since(s.start).Seconds()
	s.API = APIHits
	s.APIKeys = AllAPIKeys
	b, _ := json.Marshal(s)
	_ = os.WriteFile(path, b, 0o644)
}

// KnownSigs reads the open known-finding signatures from VERIF_KNOWN (comma separated).
func KnownSigs() map[string]bool {
	m := map[string]bool{}
	for _, s := range strings.Split(os.Getenv("VERIF_KNOWN"), ",") {
		if s = strings.TrimSpace(s); s != "" {
			m[s] = true
		}
	}
	return m
}

func sigKnown(known map[string]bool, sig string) bool {
	for k := range known {
		if strings.HasPrefix(sig, k) {
			return true
		}
	}
	return false
}

// RunCase generates and executes one case of property pd.
func RunCase(t *rapid.T, pd *PropDef, st *RunStats, known map[string]bool) {
	st.Rule = pd.Rule
	cfg := DrawConfig(t, pd.Profile)
	opt := pd.Opt
	opt.Known = func(sig string) bool { return sigKnown(known, sig) }
	it := NewInterp(cfg, pd.Policies, opt)
	if pd.Trace {
		for _, b := range it.B {
			b.Trace = &strings.Builder{}
		}
	}
	g := &Gen{P: pd.Profile, It: it}
	g.DrawHot(t)
	n := rapid.IntRange(pd.Profile.MinOps, pd.Profile.MaxOps).Draw(t, "nops")
	g.N = n
	var ops []Op
	cs := &Case{Property: pd.ID, Profile: pd.Profile.Name, Cfg: cfg}
	failed := false
	func() {
		defer func() {
			if r := recover(); r != nil {
				v, ok := r.(*Violation)
				if !ok {
					if v = libraryPanic(r, it); v == nil {
						panic(r)
					}
				}
				cs.Ops = ops
				cs.Failure = v.Msg
				cs.Sig = v.Sig
				if sigKnown(known, v.Sig) {
					st.Excluded[v.Sig]++
					return
				}
				failed = true
				st.Failed = true
				st.FailSig = v.Sig
				st.FailMsg = v.Msg
				if ff := os.Getenv("VERIF_FAILFILE"); ff != "" {
					_ = WriteCase(ff, cs)
					st.FailFile = ff
				}
				st.Write()
				t.Fatalf("VIOLATION-CASE property=%s sig=%s\n%s\nops=%d", pd.ID, v.Sig, v.Msg, len(ops))
			}
		}()
		stop := watchdog(pd.ID, func() *Case { cs.Ops = ops; return cs }, it, st)
		defer stop()
		for i := 0; i < n; i++ {
			op := g.Next(t)
			if op == nil {
				break
			}
			ops = append(ops, *op)
			it.Apply(op)
		}
		if pd.Profile.FinalOp == "roundtrip" && !it.locked() {
			op := g.genRoundtrip(t)
			ops = append(ops, *op)
			it.Apply(op)
		}
		if pd.Extra != nil && !pd.Trace {
			pd.Extra(it, ops)
		}
		it.Final()
		if pd.Extra != nil && pd.Trace {
			pd.Extra(it, ops)
		}
	}()
	if failed || st.Failed {
		return // shrink-phase executions are not counted
	}
	st.Evaluations++
	st.Ops += len(ops)
	for k, v := range it.ExcludedSigs {
		st.Excluded[k] += v
	}
	for k, v := range it.Cnt {
		if v > 0 {
			st.Classes["cases-with-"+k]++
		}
	}
	if pd.NonTrivial != nil && pd.NonTrivial(it, ops) {
		b, _ := json.Marshal(ops)
		b = append(b, fmt.Sprint(cfg)...)
		st.AddNonTrivial(b)
		if len(st.Samples) < 3 && len(ops) <= 40 {
			st.Samples = append(st.Samples, map[string]any{"cfg": cfg, "ops": ops, "classes": it.Cnt})
		}
	}
}

// Replay executes a saved case without rapid. Returns the violation or nil.
func Replay(pd *PropDef, cs *Case) (v *Violation) {
	defer func() {
		if r := recover(); r != nil {
			if vv, ok := r.(*Violation); ok {
				v = vv
				return
			}
			if v = libraryPanic(r, nil); v != nil {
				return
			}
			panic(r)
		}
	}()
	opt := pd.Opt
	if opt.DeepEvery > 1 {
		opt.DeepEvery = 1 // replays always run the deep comparison, so a defect shows at the step that causes it
	}
	it := NewInterp(cs.Cfg, pd.Policies, opt)
	stop := watchdog(pd.ID, nil, it, nil)
	defer stop()
	for i := range cs.Ops {
		it.Apply(&cs.Ops[i])
	}
	if pd.Extra != nil {
		pd.Extra(it, cs.Ops)
	}
	it.Final()
	return nil
}

// Final runs the end-of-case checks: close open queries, full deep comparison.
func (it *Interp) Final() {
	if it.done {
		return
	}
	// exhaust or close everything that is still open
	ids := []int{}
	for id, q := range it.M.Open {
		if !q.done {
			ids = append(ids, id)
		}
	}
	sort.Ints(ids)
	for _, id := range ids {
		it.Apply(&Op{K: "qClose", Q: id})
	}
	for _, b := range it.B {
		if b.W.IsLocked() {
			fail("lock|final|still-locked", "%s: world locked after every query was closed", b.Name)
		}
		b.CheckWorld(it.M, "state|final", "end of case", true)
		b.checkRegistry(it.Step)
		if !b.Pol.SkipStats || true {
			it.checkStats(b, "stats|final")
		}
	}
	// queries of all filters
	for fi := range it.M.Filters {
		if it.M.Filters[fi].Stale {
			continue
		}
		for _, b := range it.B {
			b.RunQuery(it.M, fi, nil, "query|final|"+queryKind(it.M.Filters[fi]), "end of case")
		}
	}
	// a structural operation succeeds on the unlocked world
	it.Apply(&Op{K: "new", P: PWorld})
}

// libraryPanic is called from a deferred function while r is being recovered. Every call the harness makes outside
// try() is a call it considers valid (reads, queries, statistics ...), so a panic that originates in the library (first
// non-runtime frame below the panic is an ark function) is a violation; a panic that originates in the harness itself
// is a harness error and is passed on (the driver reports it as inconclusive).
func libraryPanic(r any, it *Interp) *Violation {
	if isRapidPanic(r) {
		return nil
	}
	if s, ok := r.(string); ok && strings.HasPrefix(s, "bad op") {
		return nil
	}
	pcs := make([]uintptr, 64)
	n := runtime.Callers(2, pcs)
	frames := runtime.CallersFrames(pcs[:n])
	seenPanic := false
	for {
		f, more := frames.Next()
		fn := f.Function
		if strings.HasPrefix(fn, "runtime.") {
			if fn == "runtime.gopanic" || strings.HasPrefix(fn, "runtime.panic") || fn == "runtime.sigpanic" || fn == "runtime.goPanicIndex" {
				seenPanic = true
			}
		} else if seenPanic {
			if strings.HasPrefix(fn, "github.com/mlange-42/ark/") {
				short := fn[strings.LastIndex(fn, "/")+1:]
				step := 0
				if it != nil {
					step = it.Step
				}
				return &Violation{Sig: "panic|valid-read|" + short, Msg: fmt.Sprintf("step %d: a call the harness makes on a consistent world (read, query, statistics) panicked inside %s: %v", step, fn, r)}
			}
			return nil
		}
		if !more {
			return nil
		}
	}
}

// HangLimit is how long one case may take before it counts as hung. A case normally takes milliseconds; the limit is far
// beyond any scheduling delay of a busy machine, so reaching it means that a call never returns (a lock that is never
// released, an endless loop). The harness owns this clock: it is not a time budget of the search.
var HangLimit = hangLimit()

func hangLimit() time.Duration {
	if v, err := strconv.Atoi(os.Getenv("VERIF_HANG_S")); err == nil && v > 0 {
		return time.Duration(v) * time.Second
	}
	return 180 * time.Second
}

// watchdog reports a case that does not finish: it writes the case (if get is given) with the signature
// hang|<op kind> of the operation that was running, prints the VIOLATION-CASE line and ends the process with status 1
// (a goroutine blocked inside the library cannot be unwound).
func watchdog(prop string, get func() *Case, it *Interp, st *RunStats) (stop func()) {
	done := make(chan struct{})
	go func() {
		select {
		case <-done:
		case <-time.After(HangLimit):
			kind, step := "?", it.Step
			if it.cur != nil {
				kind = it.cur.K
			}
			sig := "hang|" + kind
			msg := fmt.Sprintf("step %d: operation %v did not return within %v (a call blocks forever)", step, it.cur, HangLimit)
			if get != nil {
				cs := get()
				cs.Failure, cs.Sig = msg, sig
				if ff := os.Getenv("VERIF_FAILFILE"); ff != "" {
					_ = WriteCase(ff, cs)
					if st != nil {
						st.FailFile = ff
					}
				}
				if st != nil {
					st.Failed, st.FailSig, st.FailMsg = true, sig, msg
					st.Write()
				}
				fmt.Printf("VIOLATION-CASE property=%s sig=%s\n%s\nops=%d\n", prop, sig, msg, len(cs.Ops))
			} else {
				fmt.Printf("REPLAY-VIOLATION property=%s sig=%s\n%s\n", prop, sig, msg)
			}
			os.Exit(1)
		}
	}()
	return func() { close(done) }
}
