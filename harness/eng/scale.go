package eng

import (
	"fmt"
	"reflect"

	"github.com/mlange-42/ark/ecs"
)

// Histories beyond 16 bits. The engine's cases stay small so that the per-step oracle is cheap: a few hundred entities,
// tables and archetypes at most (the bulk cases). Positions, row indices, table IDs and entity IDs inside the library
// are 32 bit wide; a field that is narrower than it should be, or arithmetic that wraps, shows only past 65536 rows in
// a table, tables in an archetype, tables in a registered filter's list, or entities in a world. scaleCheck runs one
// model-based history on a separate world that crosses one of these limits (drawn), with removals at drawn positions
// around the limit and at both ends, re-creation (recycled tables), Shrink, and registration at a drawn moment. The
// oracle is a per-child model (archetype, payload, current target); a registered and an identical unregistered filter
// are both compared with it (visited entities, payloads, targets, Count, EntityAt, per-target queries).

type scaleRel struct {
	ecs.RelationMarker
	V int32
}

type scaleA struct{ V int64 }
type scaleB struct{ V int32 }

type scaleChild struct {
	e    ecs.Entity
	arch int // 0: {scaleRel}, 1: {scaleRel, scaleA}
	v    int32
	tgt  int // index into targets; -1 = zero target (target died)
}

// scaleCheck is a pure function of seed.
func scaleCheck(seed uint64) {
	x := seed*6364136223846793005 + 1442695040888963407
	next := func(n int) int {
		x = x*6364136223846793005 + 1442695040888963407
		return int((x >> 33) % uint64(n))
	}
	kind := next(7)
	defer func() {
		if r := recover(); r != nil {
			if _, ok := r.(*Violation); ok {
				panic(r)
			}
			fail("scale|panic", "scale history seed %d kind %d: a valid operation panicked: %v", seed, kind, r)
		}
	}()
	switch kind {
	case 0:
		// two archetypes, each below the limit, a registered filter's table list above it
		scaleTables(seed, next, 2, 32769+next(700))
	case 1:
		// one archetype with more than 65536 tables
		scaleTables(seed, next, 1, 65530+next(700))
	case 2:
		scaleRows(seed, next)
	case 3:
		scaleReset(seed, next)
	case 4:
		scaleRegistrations(seed, next)
	case 5:
		scaleVersions(seed, next)
	default:
		scaleWide(seed, next)
	}
}

// scaleWide: entities with more than 64 components (the width of one mask word and of any 64-bit set of column
// indices), whose relation component has the highest ID and so sits in a column with index 62..100. Targets die,
// children are re-targeted one by one and in batches; relation targets and the first bytes of every component are
// compared with a model after every step.
func scaleWide(seed uint64, next func(int) int) {
	w := ecs.NewWorld(4, 1+next(2))
	u := w.Unsafe()
	nFill := 62 + next(40)
	var fill []ecs.ID
	for k := 0; k < nFill; k++ {
		fill = append(fill, ecs.TypeID(w, reflect.ArrayOf(k+1, reflect.TypeFor[int32]())))
	}
	relID := ecs.ComponentID[scaleRel](w)
	mr := ecs.NewMap1[scaleRel](w)
	type child struct {
		e     ecs.Entity
		n     int // has the first n filler components
		tgt   int // -1: zero target
		v     int32
		alive bool
	}
	var targets []ecs.Entity
	var dead []bool
	for i := 0; i < 4; i++ {
		targets = append(targets, w.NewEntity())
		dead = append(dead, false)
	}
	var kids []*child
	where := ""
	verify := func() {
		perTarget := map[int]int{}
		for i, c := range kids {
			if !c.alive {
				continue
			}
			want := ecs.Entity{}
			if c.tgt >= 0 {
				want = targets[c.tgt]
			}
			perTarget[c.tgt]++
			if got := u.GetRelation(c.e, relID); got != want {
				fail("scale|target", "%s: child %d (%d components, relation column %d) has target %v, last assigned %v", where, i, c.n+1, c.n, got, want)
			}
			if got := mr.Get(c.e).V; got != c.v {
				fail("scale|value", "%s: child %d: relation component holds %d, written %d", where, i, got, c.v)
			}
			for k := 0; k < c.n; k++ {
				if got := *(*int32)(u.Get(c.e, fill[k])); got != c.v+int32(k) {
					fail("scale|value", "%s: child %d: component %d of %d holds %d, written %d", where, i, k, c.n, got, c.v+int32(k))
				}
			}
		}
		for t := -1; t < len(targets); t++ {
			if t >= 0 && dead[t] {
				continue
			}
			tg := ecs.Entity{}
			if t >= 0 {
				tg = targets[t]
			}
			q := ecs.NewUnsafeFilter(w, relID).Query(ecs.RelID(relID, tg))
			c := q.Count()
			v := 0
			for q.Next() {
				v++
			}
			if c != perTarget[t] || v != perTarget[t] {
				fail("scale|perTargetCount", "%s: query for target %v: Count %d, visited %d, model %d", where, tg, c, v, perTarget[t])
			}
		}
	}
	aliveTarget := func() int {
		for try := 0; try < 20; try++ {
			if t := next(len(targets)); !dead[t] {
				return t
			}
		}
		targets = append(targets, w.NewEntity())
		dead = append(dead, false)
		return len(targets) - 1
	}
	steps := 10 + next(10)
	for s := 0; s < steps; s++ {
		k := next(6)
		if len(kids) < 3 {
			k = 0
		}
		where = fmt.Sprintf("scale history seed %d (wide entities, %d filler components) step %d kind %d", seed, nFill, s, k)
		switch k {
		case 0, 1: // new children of a drawn width
			n := []int{nFill, nFill, 63, 64, 65, nFill - 1}[next(6)]
			if n > nFill {
				n = nFill
			}
			t := aliveTarget()
			for i, cnt := 0, 1+next(3); i < cnt; i++ {
				c := &child{n: n, tgt: t, v: int32(1000*len(kids) + 7), alive: true}
				c.e = u.NewEntityRel(append(append([]ecs.ID{}, fill[:n]...), relID), ecs.RelID(relID, targets[t]))
				mr.Get(c.e).V = c.v
				for j := 0; j < n; j++ {
					*(*int32)(u.Get(c.e, fill[j])) = c.v + int32(j)
				}
				kids = append(kids, c)
			}
		case 2: // a target dies
			t := aliveTarget()
			w.RemoveEntity(targets[t])
			dead[t] = true
			for _, c := range kids {
				if c.alive && c.tgt == t {
					c.tgt = -1
				}
			}
		case 3: // one child is re-targeted
			c := kids[next(len(kids))]
			if c.alive {
				t := aliveTarget()
				u.SetRelations(c.e, ecs.RelID(relID, targets[t]))
				c.tgt = t
			}
		case 4: // all children of one target are re-targeted in a batch
			from, to := aliveTarget(), aliveTarget()
			mr.SetRelationsBatch(ecs.NewFilter1[scaleRel](w).Batch(ecs.RelIdx(0, targets[from])), nil, ecs.RelIdx(0, targets[to]))
			for _, c := range kids {
				if c.alive && c.tgt == from {
					c.tgt = to
				}
			}
		default: // a child is removed
			c := kids[next(len(kids))]
			if c.alive {
				w.RemoveEntity(c.e)
				c.alive = false
			}
		}
		verify()
	}
}

type scaleZ struct{ V int8 }
type scaleC struct{ V int16 }
type scaleD struct{ V int32 }
type scaleE struct{ V int64 }
type scaleF struct{ V uint8 }
type scaleG struct{ V uint16 }
type scaleH struct{ V uint32 }

// scaleVersions: a world in which thousands of archetypes are created one after the other (the registry's counters
// that typed filters compare their cached hints with pass 2^16, in steps of one near the limit). After every new
// archetype, typed filters of every arity that are used for the first time, and ones kept from the start, must count
// and visit what the ID-based filter over the same components does.
func scaleVersions(seed uint64, next func(int) int) {
	w := ecs.NewWorld(1, 1)
	u := w.Unsafe()
	ecs.ComponentID[scaleZ](w) // ID 0
	ids := []ecs.ID{ecs.ComponentID[scaleA](w), ecs.ComponentID[scaleB](w), ecs.ComponentID[scaleC](w), ecs.ComponentID[scaleD](w),
		ecs.ComponentID[scaleE](w), ecs.ComponentID[scaleF](w), ecs.ComponentID[scaleG](w), ecs.ComponentID[scaleH](w)}
	zID := ecs.ComponentID[scaleZ](w)
	var fill []ecs.ID
	for k := 0; k < 240; k++ {
		fill = append(fill, ecs.TypeID(w, reflect.ArrayOf(k+1, reflect.TypeFor[int8]())))
	}
	// matching entities: per arity n, 2+n entities with the first n components, one more that also has Z
	want := make([]int, 9)
	for n := 1; n <= 8; n++ {
		for i := 0; i < 2+n; i++ {
			u.NewEntity(ids[:n]...)
		}
		u.NewEntity(append([]ecs.ID{zID}, ids[:n]...)...)
	}
	for n := 1; n <= 8; n++ {
		for m := n; m <= 8; m++ {
			want[n] += 3 + m
		}
	}
	where := ""
	cnt := func(c int, it func() bool) int {
		v := 0
		for it() {
			v++
		}
		if v != c {
			fail("scale|count", "%s: Count %d, visited %d", where, c, v)
		}
		return c
	}
	typed := func(n int, kept *[9]any) int {
		switch n {
		case 1:
			f, _ := kept[n].(*ecs.Filter1[scaleA])
			if f == nil {
				f = ecs.NewFilter1[scaleA](w)
			}
			q := f.Query()
			return cnt(q.Count(), q.Next)
		case 2:
			f, _ := kept[n].(*ecs.Filter2[scaleA, scaleB])
			if f == nil {
				f = ecs.NewFilter2[scaleA, scaleB](w)
			}
			q := f.Query()
			return cnt(q.Count(), q.Next)
		case 3:
			f, _ := kept[n].(*ecs.Filter3[scaleA, scaleB, scaleC])
			if f == nil {
				f = ecs.NewFilter3[scaleA, scaleB, scaleC](w)
			}
			q := f.Query()
			return cnt(q.Count(), q.Next)
		case 4:
			f, _ := kept[n].(*ecs.Filter4[scaleA, scaleB, scaleC, scaleD])
			if f == nil {
				f = ecs.NewFilter4[scaleA, scaleB, scaleC, scaleD](w)
			}
			q := f.Query()
			return cnt(q.Count(), q.Next)
		case 5:
			f, _ := kept[n].(*ecs.Filter5[scaleA, scaleB, scaleC, scaleD, scaleE])
			if f == nil {
				f = ecs.NewFilter5[scaleA, scaleB, scaleC, scaleD, scaleE](w)
			}
			q := f.Query()
			return cnt(q.Count(), q.Next)
		case 6:
			f, _ := kept[n].(*ecs.Filter6[scaleA, scaleB, scaleC, scaleD, scaleE, scaleF])
			if f == nil {
				f = ecs.NewFilter6[scaleA, scaleB, scaleC, scaleD, scaleE, scaleF](w)
			}
			q := f.Query()
			return cnt(q.Count(), q.Next)
		case 7:
			f, _ := kept[n].(*ecs.Filter7[scaleA, scaleB, scaleC, scaleD, scaleE, scaleF, scaleG])
			if f == nil {
				f = ecs.NewFilter7[scaleA, scaleB, scaleC, scaleD, scaleE, scaleF, scaleG](w)
			}
			q := f.Query()
			return cnt(q.Count(), q.Next)
		default:
			f, _ := kept[n].(*ecs.Filter8[scaleA, scaleB, scaleC, scaleD, scaleE, scaleF, scaleG, scaleH])
			if f == nil {
				f = ecs.NewFilter8[scaleA, scaleB, scaleC, scaleD, scaleE, scaleF, scaleG, scaleH](w)
			}
			q := f.Query()
			return cnt(q.Count(), q.Next)
		}
	}
	var kept, none [9]any
	kept[1] = ecs.NewFilter1[scaleA](w)
	kept[2] = ecs.NewFilter2[scaleA, scaleB](w)
	kept[3] = ecs.NewFilter3[scaleA, scaleB, scaleC](w)
	kept[4] = ecs.NewFilter4[scaleA, scaleB, scaleC, scaleD](w)
	kept[5] = ecs.NewFilter5[scaleA, scaleB, scaleC, scaleD, scaleE](w)
	kept[6] = ecs.NewFilter6[scaleA, scaleB, scaleC, scaleD, scaleE, scaleF](w)
	kept[7] = ecs.NewFilter7[scaleA, scaleB, scaleC, scaleD, scaleE, scaleF, scaleG](w)
	kept[8] = ecs.NewFilter8[scaleA, scaleB, scaleC, scaleD, scaleE, scaleF, scaleG, scaleH](w)
	sum := 0 // components over all archetypes created so far
	for n := 1; n <= 8; n++ {
		sum += n + n + 1
	}
	check := func() {
		for n := 1; n <= 8; n++ {
			uq := ecs.NewUnsafeFilter(w, ids[:n]...).Query()
			uc := cnt(uq.Count(), uq.Next)
			if uc != want[n] {
				fail("scale|count", "%s: the ID-based filter over %d components yields %d entities, model %d", where, n, uc, want[n])
			}
			if got := typed(n, &none); got != want[n] {
				fail("scale|typed-filter", "%s: a Filter%d used for the first time yields %d entities, the ID-based filter %d", where, n, got, uc)
			}
			if got := typed(n, &kept); got != want[n] {
				fail("scale|typed-filter", "%s: the Filter%d kept from the start yields %d entities, the ID-based filter %d", where, n, got, uc)
			}
		}
	}
	newArch := func(l []ecs.ID) {
		e := u.NewEntity(l...)
		w.RemoveEntity(e)
		sum += len(l)
	}
	// phase 1: big archetypes (windows over the filler types) up to a few hundred below 2^16; a check now and then
	limit := 65536 - 100 - next(40)
	step := 0
outer:
	for length := 60; length >= 40; length-- {
		for start := 0; start+length <= len(fill); start++ {
			if sum+length > limit {
				break outer
			}
			newArch(fill[start : start+length])
			step++
			if step%97 == 0 {
				where = fmt.Sprintf("scale history seed %d (versions) after %d archetypes with %d components in total", seed, step, sum)
				check()
			}
		}
	}
	// phase 2: steps of one and two components through the limit
	for i := 0; i < len(fill) && sum < 65536+100; i++ {
		newArch(fill[i : i+1])
		step++
		where = fmt.Sprintf("scale history seed %d (versions) after %d archetypes with %d components in total", seed, step, sum)
		check()
	}
}

// scaleRegistrations: a long registration history. A filter and an observer that were registered first stay registered
// while throw-away ones are registered and unregistered more than 65536 times (IDs of registrations may or may not be
// handed out again; either way every registered object must keep its own identity); then new ones are registered and
// everything is compared with a model: counts of the registered filters against unregistered twins, which observers
// fire, the figures in Stats, and that every Unregister of a registered object is accepted.
func scaleRegistrations(seed uint64, next func(int) int) {
	w := ecs.NewWorld(8)
	ma := ecs.NewMap1[scaleA](w)
	mb := ecs.NewMap1[scaleB](w)
	nA, nB := 2+next(4), 1+next(4)
	for i := 0; i < nA; i++ {
		ma.NewEntity(&scaleA{V: int64(i)})
	}
	for i := 0; i < nB; i++ {
		mb.NewEntity(&scaleB{V: int32(i)})
	}
	where := fmt.Sprintf("scale history seed %d (registrations)", seed)
	count1 := func(f *ecs.Filter1[scaleA]) int {
		q := f.Query()
		n := q.Count()
		v := 0
		for q.Next() {
			v++
		}
		if v != n {
			fail("scale|count", "%s: Count %d, visited %d", where, n, v)
		}
		return n
	}
	countB := func(f *ecs.Filter1[scaleB]) int {
		q := f.Query()
		n := q.Count()
		v := 0
		for q.Next() {
			v++
		}
		if v != n {
			fail("scale|count", "%s: Count %d, visited %d", where, n, v)
		}
		return n
	}
	fa := ecs.NewFilter1[scaleA](w).Register()
	twinA := ecs.NewFilter1[scaleA](w)
	twinB := ecs.NewFilter1[scaleB](w)
	firedA, firedTmp, firedX, firedY := 0, 0, 0, 0
	obsA := ecs.Observe(ecs.OnCreateEntity).Do(func(ecs.Entity) { firedA++ })
	obsA.Register(w)
	cycles := 65500 + next(120)
	doFilters, doObservers := next(3) != 0, next(3) != 0
	if !doFilters && !doObservers {
		doFilters = true
	}
	tmpF := ecs.NewFilter1[scaleB](w)
	tmpO := ecs.Observe(ecs.OnRemoveEntity).Do(func(ecs.Entity) { firedTmp++ })
	for i := 0; i < cycles; i++ {
		if doFilters {
			tmpF.Register()
			tmpF.Unregister()
		}
		if doObservers {
			tmpO.Register(w)
			tmpO.Unregister(w)
		}
	}
	// new registrations after the long history
	var newB []*ecs.Filter1[scaleB]
	var newX, newY []*ecs.Observer
	k := 2 + next(90)
	for i := 0; i < k; i++ {
		newB = append(newB, ecs.NewFilter1[scaleB](w).Register())
		x := ecs.Observe(ecs.OnRemoveEntity).Do(func(ecs.Entity) { firedX++ })
		x.Register(w)
		newX = append(newX, x)
		y := ecs.Observe(ecs.OnCreateEntity).Do(func(ecs.Entity) { firedY++ })
		y.Register(w)
		newY = append(newY, y)
		where = fmt.Sprintf("scale history seed %d (registrations: %d cycles, then %d new ones)", seed, cycles, i+1)
		if got := count1(fa); got != nA || count1(twinA) != nA {
			fail("scale|registered-filter", "%s: the filter registered first yields %d entities, its unregistered twin %d, model %d", where, got, count1(twinA), nA)
		}
		for j, f := range newB {
			if got := countB(f); got != nB || countB(twinB) != nB {
				fail("scale|registered-filter", "%s: new registered filter %d yields %d entities, the unregistered twin %d, model %d", where, j, got, countB(twinB), nB)
			}
		}
		if st := w.Stats(); st.CachedFilters != 1+len(newB) || st.Observers != 1+len(newX)+len(newY) {
			fail("scale|stats", "%s: Stats reports %d cached filters and %d observers, model %d and %d", where, st.CachedFilters, st.Observers, 1+len(newB), 1+len(newX)+len(newY))
		}
	}
	e := ma.NewEntity(&scaleA{})
	nA++
	if firedA != 1 || firedY != len(newY) || firedX != 0 || firedTmp != 0 {
		fail("scale|observers", "%s: after one creation the first observer fired %d times (1 expected), the %d new creation observers %d times, removal observers %d, unregistered throw-away observer %d", where, firedA, len(newY), firedY, firedX, firedTmp)
	}
	// the objects registered first are unregistered; everything else keeps working
	obsA.Unregister(w)
	fa.Unregister()
	w.RemoveEntity(e)
	nA--
	ma.NewEntity(&scaleA{})
	nA++
	if firedA != 1 || firedY != 2*len(newY) || firedX != len(newX) || firedTmp != 0 {
		fail("scale|observers", "%s: after unregistering the first observer: it fired %d times in total (1 expected), creation observers %d (expected %d), removal observers %d (expected %d), throw-away %d", where, firedA, firedY, 2*len(newY), firedX, len(newX), firedTmp)
	}
	if got := count1(fa); got != nA || count1(twinA) != nA {
		fail("scale|registered-filter", "%s: the filter unregistered again yields %d entities, its twin %d, model %d", where, got, count1(twinA), nA)
	}
	for j, f := range newB {
		if got := countB(f); got != nB {
			fail("scale|registered-filter", "%s: new registered filter %d yields %d entities, model %d", where, j, got, nB)
		}
		f.Unregister()
		newX[j].Unregister(w)
		newY[j].Unregister(w)
	}
	if st := w.Stats(); st.CachedFilters != 0 || st.Observers != 0 {
		fail("scale|stats", "%s: after unregistering everything Stats reports %d cached filters and %d observers", where, st.CachedFilters, st.Observers)
	}
	ma.NewEntity(&scaleA{})
	if firedA != 1 || firedY != 2*len(newY) {
		fail("scale|observers", "%s: unregistered observers fired (first %d, new %d)", where, firedA, firedY)
	}
}

// scaleReset: a world that was large (the entity pool and one table grew far beyond their initial capacity) is reset
// and then used for a small history; handles and liveness are compared with a model, including handles from before
// the Reset (never alive again) and recycled IDs.
func scaleReset(seed uint64, next func(int) int) {
	w := ecs.NewWorld([]int{8, 1024}[next(2)])
	m := ecs.NewMap1[scaleA](w)
	n := []int{66000, 263000, 1049600, 2800000}[next(4)] + next(3000)
	var old []ecs.Entity
	i := 0
	w.NewEntities(n/2, func(e ecs.Entity) {
		if i%9973 == 0 {
			old = append(old, e)
		}
		i++
	})
	m.NewBatchFn(n-n/2, func(e ecs.Entity, a *scaleA) {
		a.V = int64(e.ID())
		if i%9973 == 0 {
			old = append(old, e)
		}
		i++
	})
	// free list of a drawn shape before the Reset
	for k, c := 0, next(40); k < c; k++ {
		if e := old[next(len(old))]; w.Alive(e) {
			w.RemoveEntity(e)
		}
	}
	where := fmt.Sprintf("scale history seed %d (Reset after %d entities)", seed, n)
	if got := w.Stats().Entities.Used; got > n || got < n-40 {
		fail("scale|stats", "%s: Stats reports %d entities before the Reset", where, got)
	}
	w.Reset()
	type rec struct {
		e     ecs.Entity
		alive bool
		v     int64
	}
	var ents []*rec
	issued := map[ecs.Entity]bool{}
	verify := func(step int) {
		cnt := 0
		for _, r := range ents {
			if w.Alive(r.e) != r.alive {
				fail("scale|alive", "%s step %d: Alive(%v)=%v, model %v", where, step, r.e, !r.alive, r.alive)
			}
			if r.alive {
				cnt++
				if got := m.Get(r.e).V; got != r.v {
					fail("scale|value", "%s step %d: entity %v holds %d, written %d", where, step, r.e, got, r.v)
				}
			}
		}
		if got := w.Stats().Entities.Used; got != cnt {
			fail("scale|stats", "%s step %d: Stats reports %d entities, model %d", where, step, got, cnt)
		}
		q := ecs.NewFilter1[scaleA](w).Query()
		if c := q.Count(); c != cnt {
			fail("scale|count", "%s step %d: Count %d, model %d", where, step, c, cnt)
		}
		q.Close()
	}
	verify(-1)
	steps := 8 + next(12)
	for s := 0; s < steps; s++ {
		switch k := next(4); {
		case k <= 1 || len(ents) == 0:
			for j, c := 0, 1+next(5); j < c; j++ {
				r := &rec{alive: true, v: int64(s*100 + j)}
				r.e = m.NewEntity(&scaleA{V: r.v})
				if issued[r.e] {
					fail("scale|handle-reissued", "%s step %d: handle %v was issued before since the Reset", where, s, r.e)
				}
				issued[r.e] = true
				ents = append(ents, r)
			}
		case k == 2:
			for j, c := 0, 1+next(3); j < c; j++ {
				if r := ents[next(len(ents))]; r.alive {
					w.RemoveEntity(r.e)
					r.alive = false
				}
			}
		default:
			cnt := 1 + next(200)
			m.NewBatchFn(cnt, func(e ecs.Entity, a *scaleA) {
				a.V = int64(e.ID()) + 5
				if issued[e] {
					fail("scale|handle-reissued", "%s step %d: handle %v was issued before since the Reset", where, s, e)
				}
				issued[e] = true
				ents = append(ents, &rec{e: e, alive: true, v: a.V})
			})
		}
		verify(s)
	}
}

func scaleTables(seed uint64, next func(int) int, nArch, nTargets int) {
	w := ecs.NewWorld(8, 1+next(2))
	m0 := ecs.NewMap1[scaleRel](w)
	m1 := ecs.NewMap2[scaleRel, scaleA](w)
	plain := ecs.NewFilter1[scaleRel](w)
	reg := ecs.NewFilter1[scaleRel](w)
	registered := false
	regAt := next(3) // 0: before any table exists, 1: half way, 2: after all tables exist
	if regAt == 0 {
		reg.Register()
		registered = true
	}
	var targets []ecs.Entity
	var dead []bool
	var children []*scaleChild
	byID := map[uint32]*scaleChild{}
	tidx := map[ecs.Entity]int{}
	addTarget := func() int {
		e := w.NewEntity()
		targets = append(targets, e)
		dead = append(dead, false)
		tidx[e] = len(targets) - 1
		return len(targets) - 1
	}
	addChild := func(arch, t int) {
		c := &scaleChild{arch: arch, v: int32(len(children)*7 + 3), tgt: t}
		if arch == 0 {
			c.e = m0.NewEntity(&scaleRel{V: c.v}, ecs.RelIdx(0, targets[t]))
		} else {
			c.e = m1.NewEntity(&scaleRel{V: c.v}, &scaleA{V: int64(c.v) * 3}, ecs.RelIdx(0, targets[t]))
		}
		children = append(children, c)
		byID[c.e.ID()] = c
	}
	for i := 0; i < nTargets; i++ {
		addTarget()
	}
	for a := 0; a < nArch; a++ {
		for i := 0; i < nTargets; i++ {
			if regAt == 1 && !registered && a == nArch-1 && i == nTargets/2 {
				reg.Register()
				registered = true
			}
			addChild(a, i)
			if i%4099 == 0 {
				addChild(a, i) // a few tables hold two rows
			}
		}
	}
	if !registered {
		reg.Register()
		registered = true
	}
	where := ""
	scan := func(name string, f *ecs.Filter1[scaleRel]) []ecs.Entity {
		q := f.Query()
		cnt := q.Count()
		var order []ecs.Entity
		for q.Next() {
			e := q.Entity()
			c := byID[e.ID()]
			if c == nil || c.e != e {
				fail("scale|entity", "%s: %s filter visits %v, which is not an alive child", where, name, e)
			}
			if got := q.Get().V; got != c.v {
				fail("scale|value", "%s: %s filter: child %v holds %d, written %d", where, name, e, got, c.v)
			}
			want := ecs.Entity{}
			if c.tgt >= 0 {
				want = targets[c.tgt]
			}
			if got := q.GetRelation(0); got != want {
				fail("scale|target", "%s: %s filter: child %v has target %v, last assigned %v", where, name, e, got, want)
			}
			order = append(order, e)
		}
		if len(order) != len(byID) {
			fail("scale|visited", "%s: %s filter visits %d entities, %d children are alive", where, name, len(order), len(byID))
		}
		seen := make(map[uint32]bool, len(order))
		for _, e := range order {
			if seen[e.ID()] {
				fail("scale|twice", "%s: %s filter visits %v twice", where, name, e)
			}
			seen[e.ID()] = true
		}
		if cnt != len(order) {
			fail("scale|count", "%s: %s filter: Count %d, visited %d", where, name, cnt, len(order))
		}
		return order
	}
	compare := func() {
		orders := [][]ecs.Entity{scan("unregistered", plain), scan("registered", reg)}
		// EntityAt at drawn positions (the order of the tables may differ between the two filters)
		if n := len(orders[0]); n > 0 {
			for _, i := range []int{0, n - 1, n / 2, 65535 % n, 65536 % n, 65537 % n, next(n), next(n)} {
				for k, f := range []*ecs.Filter1[scaleRel]{plain, reg} {
					q := f.Query()
					got := q.EntityAt(i)
					q.Close()
					if got != orders[k][i] {
						fail("scale|entityAt", "%s: EntityAt(%d) of filter %d is %v, its iteration gives %v", where, i, k, got, orders[k][i])
					}
				}
			}
		}
		// per-query targets
		perTarget := map[int]int{}
		for _, c := range byID {
			if c.tgt >= 0 {
				perTarget[c.tgt]++
			}
		}
		n := len(targets)
		for _, t := range []int{0, 1, n - 1, n - 2, 65535 % n, 65536 % n, next(n), next(n), next(n), next(n)} {
			if dead[t] {
				continue
			}
			for k, f := range []*ecs.Filter1[scaleRel]{plain, reg} {
				q := f.Query(ecs.RelIdx(0, targets[t]))
				cnt := q.Count()
				vis := 0
				for q.Next() {
					if c := byID[q.Entity().ID()]; c == nil || c.tgt != t {
						fail("scale|perTarget", "%s: filter %d with target %v visits %v, which has another target", where, k, targets[t], q.Entity())
					}
					vis++
				}
				if cnt != perTarget[t] || vis != perTarget[t] {
					fail("scale|perTargetCount", "%s: filter %d with target %v (index %d): Count %d, visited %d, model %d", where, k, targets[t], t, cnt, vis, perTarget[t])
				}
			}
		}
		if st := w.Stats(); st.Entities.Used != len(byID)+aliveCount(dead) {
			fail("scale|stats", "%s: Stats reports %d entities, model %d", where, st.Entities.Used, len(byID)+aliveCount(dead))
		}
	}
	pickTarget := func() int {
		n := len(targets)
		for try := 0; try < 50; try++ {
			var t int
			switch next(6) {
			case 0:
				t = n - 1 - next(3)
			case 1:
				t = next(3)
			case 2:
				t = (65533 + next(6)) % n
			case 3:
				t = (32766 + next(6)) % n
			default:
				t = next(n)
			}
			if t >= 0 && t < n && !dead[t] {
				return t
			}
		}
		return -1
	}
	where = fmt.Sprintf("scale history seed %d (%d archetypes x %d targets) after creation", seed, nArch, nTargets)
	compare()
	steps := 5 + next(5)
	for s := 0; s < steps; s++ {
		k := next(8)
		where = fmt.Sprintf("scale history seed %d (%d archetypes x %d targets) step %d kind %d", seed, nArch, nTargets, s, k)
		switch k {
		case 0, 1, 2: // a target dies: its tables are freed, its children fall back to the zero target
			for i, n := 0, 1+next(3); i < n; i++ {
				t := pickTarget()
				if t < 0 {
					break
				}
				w.RemoveEntity(targets[t])
				dead[t] = true
				for _, c := range byID {
					if c.tgt == t {
						c.tgt = -1
					}
				}
			}
		case 3: // new targets with children: freed tables are recycled
			for i, n := 0, 1+next(4); i < n; i++ {
				t := addTarget()
				for a := 0; a < nArch; a++ {
					addChild(a, t)
				}
			}
		case 4: // children move to another target
			for i := 0; i < 3; i++ {
				t := pickTarget()
				c := children[next(len(children))]
				if t < 0 || byID[c.e.ID()] != c {
					continue
				}
				if c.arch == 0 {
					m0.SetRelations(c.e, ecs.RelIdx(0, targets[t]))
				} else {
					m1.SetRelations(c.e, ecs.RelIdx(0, targets[t]))
				}
				c.tgt = t
			}
		case 5: // children are removed (their tables stay, empty)
			for i := 0; i < 3; i++ {
				c := children[(len(children)-1-next(4)+len(children))%len(children)]
				if i == 2 {
					c = children[next(len(children))]
				}
				if byID[c.e.ID()] != c {
					continue
				}
				w.RemoveEntity(c.e)
				delete(byID, c.e.ID())
			}
		case 6:
			w.Shrink()
		default:
			if registered {
				reg.Unregister()
			} else {
				reg.Register()
			}
			registered = !registered
			if !registered && next(2) == 0 {
				reg.Register()
				registered = true
			}
		}
		compare()
	}
}

func aliveCount(dead []bool) int {
	n := 0
	for _, d := range dead {
		if !d {
			n++
		}
	}
	return n
}

// scaleRows: one table that grows past 65536 rows; removals at both ends and around the limit (swap-remove), moves to
// a second table and back, batch removal.
func scaleRows(seed uint64, next func(int) int) {
	w := ecs.NewWorld([]int{8, 1024, 65536}[next(3)])
	m := ecs.NewMap2[scaleA, scaleB](w)
	mb := ecs.NewMap1[scaleB](w)
	fa := ecs.NewFilter1[scaleA](w)
	fab := ecs.NewFilter2[scaleA, scaleB](w)
	if next(2) == 0 {
		fa.Register()
	}
	type row struct {
		e    ecs.Entity
		v    int64
		hasB bool
	}
	byID := map[uint32]*row{}
	var all []*row
	n := 65530 + next(700)
	half := next(2) == 0
	create := func(cnt int) {
		base := int64(len(all))*5 + 11
		i := int64(0)
		m.NewBatchFn(cnt, func(e ecs.Entity, a *scaleA, b *scaleB) {
			a.V = base + i
			b.V = int32(a.V % 1000003)
			r := &row{e: e, v: a.V, hasB: true}
			all = append(all, r)
			byID[e.ID()] = r
			i++
		})
	}
	if half {
		create(n / 2)
		create(n - n/2)
	} else {
		create(n)
	}
	where := ""
	verify := func() {
		q := fa.Query()
		cnt := q.Count()
		var order []ecs.Entity
		seen := make(map[uint32]bool, len(byID))
		for q.Next() {
			e := q.Entity()
			r := byID[e.ID()]
			if r == nil || r.e != e {
				fail("scale|entity", "%s: the query visits %v, which is not alive", where, e)
			}
			if seen[e.ID()] {
				fail("scale|twice", "%s: the query visits %v twice", where, e)
			}
			seen[e.ID()] = true
			if got := q.Get().V; got != r.v {
				fail("scale|value", "%s: entity %v holds %d, written %d", where, e, got, r.v)
			}
			order = append(order, e)
		}
		if len(order) != len(byID) || cnt != len(order) {
			fail("scale|count", "%s: Count %d, visited %d, alive %d", where, cnt, len(order), len(byID))
		}
		nb := 0
		for _, r := range byID {
			if r.hasB {
				nb++
			}
		}
		q2 := fab.Query()
		if c := q2.Count(); c != nb {
			fail("scale|count", "%s: Count of the two-component filter %d, model %d", where, c, nb)
		}
		vis := 0
		for q2.Next() {
			a, b := q2.Get()
			r := byID[q2.Entity().ID()]
			if r == nil || !r.hasB || a.V != r.v || b.V != int32(r.v%1000003) {
				fail("scale|value", "%s: two-component filter: entity %v holds (%d, %d), model %v", where, q2.Entity(), a.V, b.V, r)
			}
			vis++
		}
		if vis != nb {
			fail("scale|count", "%s: the two-component filter visits %d, model %d", where, vis, nb)
		}
		if k := len(order); k > 0 {
			for _, i := range []int{0, k - 1, 65535 % k, 65536 % k, next(k)} {
				q := fa.Query()
				got := q.EntityAt(i)
				q.Close()
				if got != order[i] {
					fail("scale|entityAt", "%s: EntityAt(%d) is %v, iteration gives %v", where, i, got, order[i])
				}
			}
		}
		for i := 0; i < 6; i++ {
			r := all[next(len(all))]
			if byID[r.e.ID()] != r {
				if w.Alive(r.e) {
					fail("scale|alive", "%s: removed entity %v is alive", where, r.e)
				}
				continue
			}
			if !w.Alive(r.e) {
				fail("scale|alive", "%s: entity %v is not alive", where, r.e)
			}
			if r.hasB {
				if a, b := m.Get(r.e); a.V != r.v || b.V != int32(r.v%1000003) {
					fail("scale|value", "%s: Map2.Get(%v) gives (%d, %d), written %d", where, r.e, a.V, b.V, r.v)
				}
			}
		}
	}
	pick := func() *row {
		for try := 0; try < 50; try++ {
			k := len(all)
			var i int
			switch next(5) {
			case 0:
				i = k - 1 - next(3)
			case 1:
				i = next(3)
			case 2:
				i = (65533 + next(6)) % k
			default:
				i = next(k)
			}
			if r := all[i]; byID[r.e.ID()] == r {
				return r
			}
		}
		return nil
	}
	where = fmt.Sprintf("scale history seed %d (one table, %d rows) after creation", seed, n)
	verify()
	steps := 5 + next(5)
	for s := 0; s < steps; s++ {
		k := next(6)
		where = fmt.Sprintf("scale history seed %d (one table, %d rows) step %d kind %d", seed, n, s, k)
		switch k {
		case 0, 1: // swap-remove
			for i, c := 0, 1+next(4); i < c; i++ {
				if r := pick(); r != nil {
					w.RemoveEntity(r.e)
					delete(byID, r.e.ID())
				}
			}
		case 2: // move to the other table and (sometimes) back
			for i, c := 0, 1+next(4); i < c; i++ {
				r := pick()
				if r == nil {
					continue
				}
				if r.hasB {
					mb.Remove(r.e)
				} else {
					mb.Add(r.e, &scaleB{V: int32(r.v % 1000003)})
				}
				r.hasB = !r.hasB
			}
		case 3:
			create(1 + next(300))
		case 4:
			w.Shrink()
		default: // batch removal of everything that lost its second component
			cnt := 0
			w.RemoveEntities(ecs.NewFilter1[scaleA](w).Without(ecs.C[scaleB]()).Batch(), func(e ecs.Entity) { cnt++ })
			want := 0
			for id, r := range byID {
				if !r.hasB {
					want++
					delete(byID, id)
				}
			}
			if cnt != want {
				fail("scale|batch", "%s: batch removal called back for %d entities, model %d", where, cnt, want)
			}
		}
		verify()
	}
}
