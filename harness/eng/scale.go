package eng

import (
	"fmt"

	"github.com/mlange-42/ark/ecs"
)

// Histories beyond 16 bits. The engine's cases stay small so that the per-step oracle is cheap: a few hundred entities,
// tables and archetypes at most (the bulk cases). Positions, row indices, table IDs and entity IDs inside the library
// are 32 bit wide; a field that is narrower than it should be, or arithmetic that wraps, shows only past 65536 rows in
// a table, tables in an archetype, tables in a registered filter's list, or entities in a world. scaleCheck runs one
// model-based history on a separate world that crosses one of these limits (drawn), with removals at drawn positions
// around the limit and at both ends, re-creation (recycled tables), Shrink, and registration at a drawn moment. The
// oracle is a per-child model (archetype, payload, current target); a registered and an identical unregistered filter
// are both compared with it (visited entities, payloads, targets, Count, EntityAt, per-target queries).

type scaleRel struct {
	ecs.RelationMarker
	V int32
}

type scaleA struct{ V int64 }
type scaleB struct{ V int32 }

type scaleChild struct {
	e    ecs.Entity
	arch int // 0: {scaleRel}, 1: {scaleRel, scaleA}
	v    int32
	tgt  int // index into targets; -1 = zero target (target died)
}

// scaleCheck is a pure function of seed.
func scaleCheck(seed uint64) {
	x := seed*6364136223846793005 + 1442695040888963407
	next := func(n int) int {
		x = x*6364136223846793005 + 1442695040888963407
		return int((x >> 33) % uint64(n))
	}
	kind := next(4)
	defer func() {
		if r := recover(); r != nil {
			if _, ok := r.(*Violation); ok {
				panic(r)
			}
			fail("scale|panic", "scale history seed %d kind %d: a valid operation panicked: %v", seed, kind, r)
		}
	}()
	switch kind {
	case 0:
		// two archetypes, each below the limit, a registered filter's table list above it
		scaleTables(seed, next, 2, 32769+next(700))
	case 1:
		// one archetype with more than 65536 tables
		scaleTables(seed, next, 1, 65530+next(700))
	case 2:
		scaleRows(seed, next)
	default:
		scaleReset(seed, next)
	}
}

// scaleReset: a world that was large (the entity pool and one table grew far beyond their initial capacity) is reset
// and then used for a small history; handles and liveness are compared with a model, including handles from before
// the Reset (never alive again) and recycled IDs.
func scaleReset(seed uint64, next func(int) int) {
	w := ecs.NewWorld([]int{8, 1024}[next(2)])
	m := ecs.NewMap1[scaleA](w)
	n := []int{66000, 263000, 1049600}[next(3)] + next(3000)
	var old []ecs.Entity
	i := 0
	w.NewEntities(n/2, func(e ecs.Entity) {
		if i%9973 == 0 {
			old = append(old, e)
		}
		i++
	})
	m.NewBatchFn(n-n/2, func(e ecs.Entity, a *scaleA) {
		a.V = int64(e.ID())
		if i%9973 == 0 {
			old = append(old, e)
		}
		i++
	})
	// free list of a drawn shape before the Reset
	for k, c := 0, next(40); k < c; k++ {
		if e := old[next(len(old))]; w.Alive(e) {
			w.RemoveEntity(e)
		}
	}
	where := fmt.Sprintf("scale history seed %d (Reset after %d entities)", seed, n)
	if got := w.Stats().Entities.Used; got > n || got < n-40 {
		fail("scale|stats", "%s: Stats reports %d entities before the Reset", where, got)
	}
	w.Reset()
	type rec struct {
		e     ecs.Entity
		alive bool
		v     int64
	}
	var ents []*rec
	issued := map[ecs.Entity]bool{}
	verify := func(step int) {
		cnt := 0
		for _, r := range ents {
			if w.Alive(r.e) != r.alive {
				fail("scale|alive", "%s step %d: Alive(%v)=%v, model %v", where, step, r.e, !r.alive, r.alive)
			}
			if r.alive {
				cnt++
				if got := m.Get(r.e).V; got != r.v {
					fail("scale|value", "%s step %d: entity %v holds %d, written %d", where, step, r.e, got, r.v)
				}
			}
		}
		if got := w.Stats().Entities.Used; got != cnt {
			fail("scale|stats", "%s step %d: Stats reports %d entities, model %d", where, step, got, cnt)
		}
		q := ecs.NewFilter1[scaleA](w).Query()
		if c := q.Count(); c != cnt {
			fail("scale|count", "%s step %d: Count %d, model %d", where, step, c, cnt)
		}
		q.Close()
	}
	verify(-1)
	steps := 8 + next(12)
	for s := 0; s < steps; s++ {
		switch k := next(4); {
		case k <= 1 || len(ents) == 0:
			for j, c := 0, 1+next(5); j < c; j++ {
				r := &rec{alive: true, v: int64(s*100 + j)}
				r.e = m.NewEntity(&scaleA{V: r.v})
				if issued[r.e] {
					fail("scale|handle-reissued", "%s step %d: handle %v was issued before since the Reset", where, s, r.e)
				}
				issued[r.e] = true
				ents = append(ents, r)
			}
		case k == 2:
			for j, c := 0, 1+next(3); j < c; j++ {
				if r := ents[next(len(ents))]; r.alive {
					w.RemoveEntity(r.e)
					r.alive = false
				}
			}
		default:
			cnt := 1 + next(200)
			m.NewBatchFn(cnt, func(e ecs.Entity, a *scaleA) {
				a.V = int64(e.ID()) + 5
				if issued[e] {
					fail("scale|handle-reissued", "%s step %d: handle %v was issued before since the Reset", where, s, e)
				}
				issued[e] = true
				ents = append(ents, &rec{e: e, alive: true, v: a.V})
			})
		}
		verify(s)
	}
}

func scaleTables(seed uint64, next func(int) int, nArch, nTargets int) {
	w := ecs.NewWorld(8, 1+next(2))
	m0 := ecs.NewMap1[scaleRel](w)
	m1 := ecs.NewMap2[scaleRel, scaleA](w)
	plain := ecs.NewFilter1[scaleRel](w)
	reg := ecs.NewFilter1[scaleRel](w)
	registered := false
	regAt := next(3) // 0: before any table exists, 1: half way, 2: after all tables exist
	if regAt == 0 {
		reg.Register()
		registered = true
	}
	var targets []ecs.Entity
	var dead []bool
	var children []*scaleChild
	byID := map[uint32]*scaleChild{}
	tidx := map[ecs.Entity]int{}
	addTarget := func() int {
		e := w.NewEntity()
		targets = append(targets, e)
		dead = append(dead, false)
		tidx[e] = len(targets) - 1
		return len(targets) - 1
	}
	addChild := func(arch, t int) {
		c := &scaleChild{arch: arch, v: int32(len(children)*7 + 3), tgt: t}
		if arch == 0 {
			c.e = m0.NewEntity(&scaleRel{V: c.v}, ecs.RelIdx(0, targets[t]))
		} else {
			c.e = m1.NewEntity(&scaleRel{V: c.v}, &scaleA{V: int64(c.v) * 3}, ecs.RelIdx(0, targets[t]))
		}
		children = append(children, c)
		byID[c.e.ID()] = c
	}
	for i := 0; i < nTargets; i++ {
		addTarget()
	}
	for a := 0; a < nArch; a++ {
		for i := 0; i < nTargets; i++ {
			if regAt == 1 && !registered && a == nArch-1 && i == nTargets/2 {
				reg.Register()
				registered = true
			}
			addChild(a, i)
			if i%4099 == 0 {
				addChild(a, i) // a few tables hold two rows
			}
		}
	}
	if !registered {
		reg.Register()
		registered = true
	}
	where := ""
	scan := func(name string, f *ecs.Filter1[scaleRel]) []ecs.Entity {
		q := f.Query()
		cnt := q.Count()
		var order []ecs.Entity
		for q.Next() {
			e := q.Entity()
			c := byID[e.ID()]
			if c == nil || c.e != e {
				fail("scale|entity", "%s: %s filter visits %v, which is not an alive child", where, name, e)
			}
			if got := q.Get().V; got != c.v {
				fail("scale|value", "%s: %s filter: child %v holds %d, written %d", where, name, e, got, c.v)
			}
			want := ecs.Entity{}
			if c.tgt >= 0 {
				want = targets[c.tgt]
			}
			if got := q.GetRelation(0); got != want {
				fail("scale|target", "%s: %s filter: child %v has target %v, last assigned %v", where, name, e, got, want)
			}
			order = append(order, e)
		}
		if len(order) != len(byID) {
			fail("scale|visited", "%s: %s filter visits %d entities, %d children are alive", where, name, len(order), len(byID))
		}
		seen := make(map[uint32]bool, len(order))
		for _, e := range order {
			if seen[e.ID()] {
				fail("scale|twice", "%s: %s filter visits %v twice", where, name, e)
			}
			seen[e.ID()] = true
		}
		if cnt != len(order) {
			fail("scale|count", "%s: %s filter: Count %d, visited %d", where, name, cnt, len(order))
		}
		return order
	}
	compare := func() {
		orders := [][]ecs.Entity{scan("unregistered", plain), scan("registered", reg)}
		// EntityAt at drawn positions (the order of the tables may differ between the two filters)
		if n := len(orders[0]); n > 0 {
			for _, i := range []int{0, n - 1, n / 2, 65535 % n, 65536 % n, 65537 % n, next(n), next(n)} {
				for k, f := range []*ecs.Filter1[scaleRel]{plain, reg} {
					q := f.Query()
					got := q.EntityAt(i)
					q.Close()
					if got != orders[k][i] {
						fail("scale|entityAt", "%s: EntityAt(%d) of filter %d is %v, its iteration gives %v", where, i, k, got, orders[k][i])
					}
				}
			}
		}
		// per-query targets
		perTarget := map[int]int{}
		for _, c := range byID {
			if c.tgt >= 0 {
				perTarget[c.tgt]++
			}
		}
		n := len(targets)
		for _, t := range []int{0, 1, n - 1, n - 2, 65535 % n, 65536 % n, next(n), next(n), next(n), next(n)} {
			if dead[t] {
				continue
			}
			for k, f := range []*ecs.Filter1[scaleRel]{plain, reg} {
				q := f.Query(ecs.RelIdx(0, targets[t]))
				cnt := q.Count()
				vis := 0
				for q.Next() {
					if c := byID[q.Entity().ID()]; c == nil || c.tgt != t {
						fail("scale|perTarget", "%s: filter %d with target %v visits %v, which has another target", where, k, targets[t], q.Entity())
					}
					vis++
				}
				if cnt != perTarget[t] || vis != perTarget[t] {
					fail("scale|perTargetCount", "%s: filter %d with target %v (index %d): Count %d, visited %d, model %d", where, k, targets[t], t, cnt, vis, perTarget[t])
				}
			}
		}
		if st := w.Stats(); st.Entities.Used != len(byID)+aliveCount(dead) {
			fail("scale|stats", "%s: Stats reports %d entities, model %d", where, st.Entities.Used, len(byID)+aliveCount(dead))
		}
	}
	pickTarget := func() int {
		n := len(targets)
		for try := 0; try < 50; try++ {
			var t int
			switch next(6) {
			case 0:
				t = n - 1 - next(3)
			case 1:
				t = next(3)
			case 2:
				t = (65533 + next(6)) % n
			case 3:
				t = (32766 + next(6)) % n
			default:
				t = next(n)
			}
			if t >= 0 && t < n && !dead[t] {
				return t
			}
		}
		return -1
	}
	where = fmt.Sprintf("scale history seed %d (%d archetypes x %d targets) after creation", seed, nArch, nTargets)
	compare()
	steps := 5 + next(5)
	for s := 0; s < steps; s++ {
		k := next(8)
		where = fmt.Sprintf("scale history seed %d (%d archetypes x %d targets) step %d kind %d", seed, nArch, nTargets, s, k)
		switch k {
		case 0, 1, 2: // a target dies: its tables are freed, its children fall back to the zero target
			for i, n := 0, 1+next(3); i < n; i++ {
				t := pickTarget()
				if t < 0 {
					break
				}
				w.RemoveEntity(targets[t])
				dead[t] = true
				for _, c := range byID {
					if c.tgt == t {
						c.tgt = -1
					}
				}
			}
		case 3: // new targets with children: freed tables are recycled
			for i, n := 0, 1+next(4); i < n; i++ {
				t := addTarget()
				for a := 0; a < nArch; a++ {
					addChild(a, t)
				}
			}
		case 4: // children move to another target
			for i := 0; i < 3; i++ {
				t := pickTarget()
				c := children[next(len(children))]
				if t < 0 || byID[c.e.ID()] != c {
					continue
				}
				if c.arch == 0 {
					m0.SetRelations(c.e, ecs.RelIdx(0, targets[t]))
				} else {
					m1.SetRelations(c.e, ecs.RelIdx(0, targets[t]))
				}
				c.tgt = t
			}
		case 5: // children are removed (their tables stay, empty)
			for i := 0; i < 3; i++ {
				c := children[(len(children)-1-next(4)+len(children))%len(children)]
				if i == 2 {
					c = children[next(len(children))]
				}
				if byID[c.e.ID()] != c {
					continue
				}
				w.RemoveEntity(c.e)
				delete(byID, c.e.ID())
			}
		case 6:
			w.Shrink()
		default:
			if registered {
				reg.Unregister()
			} else {
				reg.Register()
			}
			registered = !registered
			if !registered && next(2) == 0 {
				reg.Register()
				registered = true
			}
		}
		compare()
	}
}

func aliveCount(dead []bool) int {
	n := 0
	for _, d := range dead {
		if !d {
			n++
		}
	}
	return n
}

// scaleRows: one table that grows past 65536 rows; removals at both ends and around the limit (swap-remove), moves to
// a second table and back, batch removal.
func scaleRows(seed uint64, next func(int) int) {
	w := ecs.NewWorld([]int{8, 1024, 65536}[next(3)])
	m := ecs.NewMap2[scaleA, scaleB](w)
	mb := ecs.NewMap1[scaleB](w)
	fa := ecs.NewFilter1[scaleA](w)
	fab := ecs.NewFilter2[scaleA, scaleB](w)
	if next(2) == 0 {
		fa.Register()
	}
	type row struct {
		e    ecs.Entity
		v    int64
		hasB bool
	}
	byID := map[uint32]*row{}
	var all []*row
	n := 65530 + next(700)
	half := next(2) == 0
	create := func(cnt int) {
		base := int64(len(all))*5 + 11
		i := int64(0)
		m.NewBatchFn(cnt, func(e ecs.Entity, a *scaleA, b *scaleB) {
			a.V = base + i
			b.V = int32(a.V % 1000003)
			r := &row{e: e, v: a.V, hasB: true}
			all = append(all, r)
			byID[e.ID()] = r
			i++
		})
	}
	if half {
		create(n / 2)
		create(n - n/2)
	} else {
		create(n)
	}
	where := ""
	verify := func() {
		q := fa.Query()
		cnt := q.Count()
		var order []ecs.Entity
		seen := make(map[uint32]bool, len(byID))
		for q.Next() {
			e := q.Entity()
			r := byID[e.ID()]
			if r == nil || r.e != e {
				fail("scale|entity", "%s: the query visits %v, which is not alive", where, e)
			}
			if seen[e.ID()] {
				fail("scale|twice", "%s: the query visits %v twice", where, e)
			}
			seen[e.ID()] = true
			if got := q.Get().V; got != r.v {
				fail("scale|value", "%s: entity %v holds %d, written %d", where, e, got, r.v)
			}
			order = append(order, e)
		}
		if len(order) != len(byID) || cnt != len(order) {
			fail("scale|count", "%s: Count %d, visited %d, alive %d", where, cnt, len(order), len(byID))
		}
		nb := 0
		for _, r := range byID {
			if r.hasB {
				nb++
			}
		}
		q2 := fab.Query()
		if c := q2.Count(); c != nb {
			fail("scale|count", "%s: Count of the two-component filter %d, model %d", where, c, nb)
		}
		vis := 0
		for q2.Next() {
			a, b := q2.Get()
			r := byID[q2.Entity().ID()]
			if r == nil || !r.hasB || a.V != r.v || b.V != int32(r.v%1000003) {
				fail("scale|value", "%s: two-component filter: entity %v holds (%d, %d), model %v", where, q2.Entity(), a.V, b.V, r)
			}
			vis++
		}
		if vis != nb {
			fail("scale|count", "%s: the two-component filter visits %d, model %d", where, vis, nb)
		}
		if k := len(order); k > 0 {
			for _, i := range []int{0, k - 1, 65535 % k, 65536 % k, next(k)} {
				q := fa.Query()
				got := q.EntityAt(i)
				q.Close()
				if got != order[i] {
					fail("scale|entityAt", "%s: EntityAt(%d) is %v, iteration gives %v", where, i, got, order[i])
				}
			}
		}
		for i := 0; i < 6; i++ {
			r := all[next(len(all))]
			if byID[r.e.ID()] != r {
				if w.Alive(r.e) {
					fail("scale|alive", "%s: removed entity %v is alive", where, r.e)
				}
				continue
			}
			if !w.Alive(r.e) {
				fail("scale|alive", "%s: entity %v is not alive", where, r.e)
			}
			if r.hasB {
				if a, b := m.Get(r.e); a.V != r.v || b.V != int32(r.v%1000003) {
					fail("scale|value", "%s: Map2.Get(%v) gives (%d, %d), written %d", where, r.e, a.V, b.V, r.v)
				}
			}
		}
	}
	pick := func() *row {
		for try := 0; try < 50; try++ {
			k := len(all)
			var i int
			switch next(5) {
			case 0:
				i = k - 1 - next(3)
			case 1:
				i = next(3)
			case 2:
				i = (65533 + next(6)) % k
			default:
				i = next(k)
			}
			if r := all[i]; byID[r.e.ID()] == r {
				return r
			}
		}
		return nil
	}
	where = fmt.Sprintf("scale history seed %d (one table, %d rows) after creation", seed, n)
	verify()
	steps := 5 + next(5)
	for s := 0; s < steps; s++ {
		k := next(6)
		where = fmt.Sprintf("scale history seed %d (one table, %d rows) step %d kind %d", seed, n, s, k)
		switch k {
		case 0, 1: // swap-remove
			for i, c := 0, 1+next(4); i < c; i++ {
				if r := pick(); r != nil {
					w.RemoveEntity(r.e)
					delete(byID, r.e.ID())
				}
			}
		case 2: // move to the other table and (sometimes) back
			for i, c := 0, 1+next(4); i < c; i++ {
				r := pick()
				if r == nil {
					continue
				}
				if r.hasB {
					mb.Remove(r.e)
				} else {
					mb.Add(r.e, &scaleB{V: int32(r.v % 1000003)})
				}
				r.hasB = !r.hasB
			}
		case 3:
			create(1 + next(300))
		case 4:
			w.Shrink()
		default: // batch removal of everything that lost its second component
			cnt := 0
			w.RemoveEntities(ecs.NewFilter1[scaleA](w).Without(ecs.C[scaleB]()).Batch(), func(e ecs.Entity) { cnt++ })
			want := 0
			for id, r := range byID {
				if !r.hasB {
					want++
					delete(byID, id)
				}
			}
			if cnt != want {
				fail("scale|batch", "%s: batch removal called back for %d entities, model %d", where, cnt, want)
			}
		}
		verify()
	}
}
