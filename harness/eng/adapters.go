package eng

import (
	"fmt"
	"sync"
	"unsafe"

	"arkverif/comps"

	"github.com/mlange-42/ark/ecs"
)

// Ptrs are component pointers in type-parameter order.
type Ptrs = []unsafe.Pointer

// RelArg is one relation target argument. Pos is the position of the relation component in the
// adapter's component list (type parameters first, then With components for filters).
type RelArg struct {
	Pos    int        // position in the component list of the mapper/filter
	Comp   int        // universe index of the component
	Target ecs.Entity // target handle
	Style  int        // 0 = RelIdx, 1 = Rel[T], 2 = RelID
}

// Mapper is the common shape of Map[T], Map1..Map12 and the ID-based API.
type Mapper interface {
	Name() string
	Comps() []int
	NewEntity(vals []int64, rels []RelArg) ecs.Entity
	NewEntityFn(fn func(Ptrs), rels []RelArg) ecs.Entity
	NewBatch(n int, vals []int64, rels []RelArg)
	NewBatchFn(n int, fn func(ecs.Entity, Ptrs), rels []RelArg)
	Get(e ecs.Entity) Ptrs
	GetUnchecked(e ecs.Entity) Ptrs
	HasAll(e ecs.Entity) bool
	Add(e ecs.Entity, vals []int64, rels []RelArg)
	AddFn(e ecs.Entity, fn func(Ptrs), rels []RelArg)
	Set(e ecs.Entity, vals []int64)
	AddBatch(b ecs.Batch, vals []int64, rels []RelArg)
	AddBatchFn(b ecs.Batch, fn func(ecs.Entity, Ptrs), rels []RelArg)
	Remove(e ecs.Entity)
	RemoveBatch(b ecs.Batch, fn func(ecs.Entity))
	GetRelation(e ecs.Entity, pos int) ecs.Entity
	GetRelationUnchecked(e ecs.Entity, pos int) ecs.Entity
	SetRelations(e ecs.Entity, rels []RelArg)
	SetRelationsBatch(b ecs.Batch, fn func(ecs.Entity), rels []RelArg)
}

// Exchanger is the common shape of Exchange1..Exchange8.
type Exchanger interface {
	Name() string
	Comps() []int
	Removes(c []ecs.Comp)
	Add(e ecs.Entity, vals []int64, rels []RelArg)
	AddFn(e ecs.Entity, fn func(Ptrs), rels []RelArg)
	Remove(e ecs.Entity)
	Exchange(e ecs.Entity, vals []int64, rels []RelArg)
	ExchangeFn(e ecs.Entity, fn func(Ptrs), rels []RelArg)
	AddBatch(b ecs.Batch, vals []int64, rels []RelArg)
	AddBatchFn(b ecs.Batch, fn func(ecs.Entity, Ptrs), rels []RelArg)
	RemoveBatch(b ecs.Batch, fn func(ecs.Entity))
	ExchangeBatch(b ecs.Batch, vals []int64, rels []RelArg)
	ExchangeBatchFn(b ecs.Batch, fn func(ecs.Entity, Ptrs), rels []RelArg)
}

// Filter is the common shape of Filter0..Filter8.
type Filter interface {
	Name() string
	Comps() []int // type parameters only
	With(c []ecs.Comp)
	Without(c []ecs.Comp)
	Exclusive()
	Relations(rels []RelArg)
	Register()
	Unregister()
	Query(rels []RelArg) Query
	Batch(rels []RelArg) ecs.Batch
}

// Query is the common shape of Query0..Query8 and UnsafeQuery (the latter through unsafeQuery).
type Query interface {
	Next() bool
	Entity() ecs.Entity
	Get() Ptrs
	GetRelation(pos int) ecs.Entity
	Count() int
	EntityAt(i int) ecs.Entity
	Close()
}

// Obs is the common shape of Observer, Observer1..Observer4.
type Obs interface {
	Name() string
	Comps() []int // type parameters
	For(c []ecs.Comp)
	With(c []ecs.Comp)
	Without(c []ecs.Comp)
	Exclusive()
	Do(fn func(ecs.Entity, Ptrs))
	Register(w *ecs.World)
	Unregister(w *ecs.World)
}

// buildRels converts RelArgs into ecs.Relation values in the requested style.
func buildRels(w *ecs.World, args []RelArg) []ecs.Relation {
	if len(args) == 0 {
		return nil
	}
	// A caller may keep its []Relation and pass it again, to other calls, other worlds and from other goroutines: the
	// library only reads it. Equal argument lists therefore share one slice for the life of the process (RelID values
	// carry a world-specific ID and are not shared).
	key := ""
	for _, a := range args {
		if a.Style == 2 {
			key = ""
			break
		}
		key += fmt.Sprint(a.Pos, a.Comp, a.Target, a.Style, ";")
	}
	if key != "" {
		relCacheMu.Lock()
		cached, ok := relCache[key]
		relCacheMu.Unlock()
		if ok {
			return cached
		}
	}
	out := make([]ecs.Relation, len(args))
	for i, a := range args {
		switch a.Style {
		case 0:
			out[i] = ecs.RelIdx(a.Pos, a.Target)
		case 1:
			out[i] = comps.RelOf(a.Comp, a.Target)
		default:
			out[i] = ecs.RelID(comps.Register(w, a.Comp), a.Target)
		}
	}
	if key != "" {
		relCacheMu.Lock()
		if len(relCache) > 20000 {
			relCache = map[string][]ecs.Relation{}
		}
		relCache[key] = out
		relCacheMu.Unlock()
	}
	return out
}

var (
	relCache   = map[string][]ecs.Relation{}
	relCacheMu sync.Mutex
)

func targetsOf(args []RelArg) []ecs.Entity {
	if len(args) == 0 {
		return nil
	}
	out := make([]ecs.Entity, len(args))
	for i, a := range args {
		out[i] = a.Target
	}
	return out
}

// useComps passes the component list to a builder call in a slice the caller keeps (with spare capacity) and, once the
// whole builder chain is done (flushScramble), overwrites that slice and appends to it, as a caller that reuses its
// scratch slice would. A library that kept the slice instead of copying it then sees other components.
func useComps(idx []int, call func([]ecs.Comp)) {
	if len(idx) == 0 {
		return
	}
	l := make([]ecs.Comp, len(idx), len(idx)+3)
	for i, c := range idx {
		l[i] = comps.All[c].Comp
	}
	call(l)
	scrambleMu.Lock()
	defer scrambleMu.Unlock()
	pendingScramble = append(pendingScramble, func() {
		for i, c := range idx {
			l[i] = comps.All[(c+5)%comps.N].Comp
		}
		_ = append(l, comps.All[(idx[0]+9)%comps.N].Comp, comps.All[(idx[0]+3)%comps.N].Comp)
	})
}

var (
	pendingScramble []func()
	scrambleMu      sync.Mutex
)

func flushScramble() {
	scrambleMu.Lock()
	defer scrambleMu.Unlock()
	for _, f := range pendingScramble {
		f()
	}
	pendingScramble = pendingScramble[:0]
}

func compsOf(idx []int) []ecs.Comp {
	out := make([]ecs.Comp, len(idx))
	for i, c := range idx {
		out[i] = comps.All[c].Comp
	}
	return out
}

// APIHits counts calls per generated ark type and method (evidence for C14).
var APIHits = map[string]int{}

// HitsOff disables the (not goroutine-safe) API counter; set before goroutines are started (C13).
var HitsOff bool

func hit(key string) {
	if !HitsOff {
		APIHits[key]++
	}
}
