package eng

import (
	"fmt"
	"reflect"
	"unsafe"

	"github.com/mlange-42/ark/ecs"
)

// Component shapes outside the static universe: the universe's types are at most 160 bytes, so that the per-step
// oracle stays cheap. shapeCheck runs a small model-based history on a separate world over types of unusual size
// (0, odd, padded, > 1 KiB, > 4 KiB, exactly 64 KiB, > 64 KiB) through the ID-based API; every component is filled with
// a per-(entity, component) byte pattern and all patterns are verified after every step.
var shapeTypes = []reflect.Type{
	reflect.TypeFor[struct{}](),
	reflect.TypeFor[[3]byte](),
	reflect.TypeFor[struct {
		A uint8
		B uint64
		C uint16
	}](),
	reflect.TypeFor[[1031]int8](),
	reflect.TypeFor[[513]int64](),
	reflect.TypeFor[[65536]int8](),
	reflect.TypeFor[[96][96]float64](),
	reflect.TypeFor[struct {
		P *int
		V [70000]byte
	}](),
}

func shapeFill(p unsafe.Pointer, tp reflect.Type, seed byte) {
	if tp.Size() == 0 {
		return
	}
	if tp.Kind() == reflect.Struct && tp.NumField() > 0 && tp.Field(0).Type.Kind() == reflect.Pointer {
		// leave the pointer field alone (nil), pattern the rest
		off := tp.Field(1).Offset
		b := unsafe.Slice((*byte)(unsafe.Add(p, off)), tp.Size()-off)
		for i := range b {
			b[i] = seed + byte(i)*13 + byte(i>>8)
		}
		return
	}
	b := unsafe.Slice((*byte)(p), tp.Size())
	for i := range b {
		b[i] = seed + byte(i)*13 + byte(i>>8)
	}
}

func shapeOK(p unsafe.Pointer, tp reflect.Type, seed byte) bool {
	if tp.Size() == 0 {
		return true
	}
	off := uintptr(0)
	if tp.Kind() == reflect.Struct && tp.NumField() > 0 && tp.Field(0).Type.Kind() == reflect.Pointer {
		if *(*unsafe.Pointer)(p) != nil {
			return false
		}
		off = tp.Field(1).Offset
	}
	b := unsafe.Slice((*byte)(unsafe.Add(p, off)), tp.Size()-off)
	for i := range b {
		if b[i] != seed+byte(i)*13+byte(i>>8) {
			return false
		}
	}
	return true
}

// shapeCheck is a pure function of seed.
func shapeCheck(seed uint64) {
	x := seed*6364136223846793005 + 1442695040888963407
	next := func(n int) int {
		x = x*6364136223846793005 + 1442695040888963407
		return int((x >> 33) % uint64(n))
	}
	w := ecs.NewWorld([]int{1, 2, 3, 8}[next(4)])
	u := w.Unsafe()
	// register a drawn subset (3-5 types) in a drawn order
	var ids []ecs.ID
	var tps []reflect.Type
	perm := []int{0, 1, 2, 3, 4, 5, 6, 7}
	for i := len(perm) - 1; i > 0; i-- {
		j := next(i + 1)
		perm[i], perm[j] = perm[j], perm[i]
	}
	n := 3 + next(3)
	for _, k := range perm[:n] {
		tps = append(tps, shapeTypes[k])
		ids = append(ids, ecs.TypeID(w, shapeTypes[k]))
	}
	type ent struct {
		e    ecs.Entity
		has  []bool
		seed []byte
	}
	var ents []*ent
	pat := byte(1)
	verify := func(where string) {
		for i, en := range ents {
			if en == nil {
				continue
			}
			for c := range ids {
				if u.Has(en.e, ids[c]) != en.has[c] {
					fail("shapes|has", "%s: entity %d Has(%v)=%v, model %v", where, i, tps[c], !en.has[c], en.has[c])
				}
				if en.has[c] && !shapeOK(u.Get(en.e, ids[c]), tps[c], en.seed[c]) {
					fail("shapes|value", "%s: component %v (%d bytes) of entity %d does not hold the bytes written to it", where, tps[c], tps[c].Size(), i)
				}
			}
		}
	}
	write := func(en *ent, c int) {
		pat += 7
		en.seed[c] = pat
		shapeFill(u.Get(en.e, ids[c]), tps[c], pat)
	}
	steps := 6 + next(10)
	for s := 0; s < steps; s++ {
		var alive []int
		for i, en := range ents {
			if en != nil {
				alive = append(alive, i)
			}
		}
		kind := next(5)
		if len(alive) < 2 {
			kind = 0
		}
		where := fmt.Sprintf("shape history seed %d step %d", seed, s)
		switch kind {
		case 0, 1: // new entity with a drawn non-empty subset
			en := &ent{has: make([]bool, len(ids)), seed: make([]byte, len(ids))}
			var l []ecs.ID
			for c := range ids {
				if next(2) == 0 || (len(l) == 0 && c == len(ids)-1) {
					en.has[c] = true
					l = append(l, ids[c])
				}
			}
			en.e = u.NewEntity(l...)
			for c := range ids {
				if en.has[c] {
					if tps[c].Size() > 0 && !isZeroMem(u.Get(en.e, ids[c]), tps[c].Size()) {
						fail("shapes|zero", "%s: new component %v is not zero", where, tps[c])
					}
					write(en, c)
				}
			}
			ents = append(ents, en)
		case 2: // add or remove one component (moves the entity to another table)
			en := ents[alive[next(len(alive))]]
			c := next(len(ids))
			cnt := 0
			for _, h := range en.has {
				if h {
					cnt++
				}
			}
			if en.has[c] && cnt > 1 {
				u.Remove(en.e, ids[c])
				en.has[c] = false
			} else if !en.has[c] {
				u.Add(en.e, ids[c])
				en.has[c] = true
				if tps[c].Size() > 0 && !isZeroMem(u.Get(en.e, ids[c]), tps[c].Size()) {
					fail("shapes|zero", "%s: added component %v is not zero", where, tps[c])
				}
				write(en, c)
			}
		case 3: // remove an entity (swap-remove inside its table)
			i := alive[next(len(alive))]
			w.RemoveEntity(ents[i].e)
			ents[i] = nil
		default: // overwrite one component
			en := ents[alive[next(len(alive))]]
			for c := range ids {
				if en.has[c] {
					write(en, c)
					break
				}
			}
		}
		verify(where)
	}
	w.Shrink()
	verify(fmt.Sprintf("shape history seed %d after Shrink", seed))
}

func isZeroMem(p unsafe.Pointer, n uintptr) bool {
	b := unsafe.Slice((*byte)(p), n)
	for _, v := range b {
		if v != 0 {
			return false
		}
	}
	return true
}
